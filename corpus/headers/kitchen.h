// A hand-written "kitchen sink" header used as a real-database seed (C12, C13, C20).
#include <verif_prelude.h>
#define KS_INT (3 + 4)
#define KS_STR "hello \"world\"\n"
#define KS_FLT 1.5
namespace ks {
// Documentation comment of Base
class Base {
PUBLISHED:
  Base();
  virtual ~Base();
  virtual int get_value() const;
  void set_value(int value, double scale = 1.5);
  MAKE_PROPERTY(value, get_value, set_value);
  enum Mode { M_a = 1, M_b = 1 << 4, M_c };
  static int count;
  int get_num_items() const;
  int get_item(int n) const;
  MAKE_SEQ(get_items, get_num_items, get_item);
public:
  int not_published();
private:
  int _v;
};
class Other {
PUBLISHED:
  Other(int x);
  Other(const Other &copy);
  int operator [] (int n) const;
  bool operator == (const Other &o) const;
  const char *get_name() const;
};
class Derived : public Base, public Other {
PUBLISHED:
  Derived();
  /* block comment on method */
  virtual int get_value() const;
  static Derived *make(const char *name, unsigned long long big = 0);
  Base *as_base();
  struct Nested { int a; };
  Nested get_nested() const;
};
}
BEGIN_PUBLISH
typedef ks::Derived DerivedAlias;
enum class Color : unsigned char { red, green = 5, blue };
extern int global_counter;
extern const double table[4];
int free_function(int a, const ks::Base &b, ks::Other *c = nullptr);
END_PUBLISH
