#!/bin/sh
# verify_replays.sh [replay-dir ...] : for every generator-dependent replay of a fixed finding (or the ones named), reverts the fix in
# /repo's working tree, runs the replay (it must report the violation), and restores the tree.  Run after changing a generator.
cd /verif || exit 2
if [ -n "$(git -C /repo status --porcelain --untracked-files=no)" ]; then echo "VERIFY: /repo not clean"; exit 2; fi
python3 - "$@" <<'PY' > /tmp/verify-replays.list
import json, os, sys
want = set(a.rstrip('/') for a in sys.argv[1:])
for e in json.load(open('/verif/known_findings.json')):
    p = os.path.join('/verif', e['replay'], 'case.json')
    if e['status'] != 'fixed' or not os.path.exists(p):
        continue
    c = json.load(open(p))['case']
    gen = isinstance(c, dict) and 'raw' in c and not c.get('literal')
    if (want and e['replay'] in want) or (not want and gen):
        print(e['property'], e['commit'], e['replay'])
PY
BAD=0
while read P C R; do
  git -C /repo revert --no-commit "$C" >/dev/null 2>&1 || { git -C /repo revert --abort 2>/dev/null; git -C /repo reset -q --hard; echo "VERIFY $R: revert of $C conflicts (skipped)"; continue; }
  ./check "$P" --tier quick --replay "$R/case.json" > /tmp/verify-replay.log 2>&1
  N=$(grep -c '^VIOLATION' /tmp/verify-replay.log)
  git -C /repo revert --abort 2>/dev/null; git -C /repo reset -q --hard
  if [ "$N" -ge 1 ]; then echo "VERIFY $R: fails without $C (good)"; else echo "VERIFY $R: STALE - passes without $C"; BAD=1; fi
done < /tmp/verify-replays.list
exit $BAD
