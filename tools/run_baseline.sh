#!/bin/sh
# Builds /repo WITHOUT the verification guard in a scratch directory and runs the repository's own test suite.
set -e
B=${BASELINE_BUILD_DIR:-/var/tmp/verif-baseline-build}
rm -rf "$B"
cmake -G Ninja -S /repo -B "$B" >/dev/null
cmake --build "$B" -j 16 >/dev/null
ctest --test-dir "$B" -j8 --timeout 900 "$@"
rc=$?
rm -rf "$B"
exit $rc
