#!/bin/sh
# run_seed.sh <seed-dir under /verif/seeded> <check id> [tier] : applies the seeded change to /repo, runs the check, reverts.
S=/verif/seeded/$1
C=$2
T=${3:-quick}
cd /repo || exit 2
if [ -n "$(git status --porcelain --untracked-files=no)" ]; then echo "RUN_SEED: /repo not clean"; exit 2; fi
git apply "$S/patch.diff" || { echo "RUN_SEED: patch does not apply"; exit 2; }
cd /verif
./check "$C" --tier "$T" > "$S/check-$C-$T.log" 2>&1
RC=$?
git -C /repo checkout -q -- .
echo "RUN_SEED $1 $C $T: exit=$RC $(grep -c '^VIOLATION' "$S/check-$C-$T.log") violation line(s)"
grep -m2 "failure:" "$S/check-$C-$T.log" | cut -c1-300
