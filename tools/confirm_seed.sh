#!/bin/sh
# confirm_seed.sh <worktree> : confirms a seeded change in its scratch worktree:
#   unchanged tree: demo passes; with patch: builds, 10 tests pass, demo fails.  Leaves the tree unchanged.
WT=$1
cd "$WT" || exit 2
git checkout -q -- . 2>/dev/null
B=$WT/_cb
rm -rf "$B"
cmake -G Ninja -S "$WT" -B "$B" >/dev/null 2>&1 && cmake --build "$B" -j8 >/dev/null 2>&1 || { echo "CONFIRM: clean build failed"; exit 2; }
sh seeded/demo/run.sh "$B/bin" >/tmp/confirm-clean.$$ 2>&1; RC_CLEAN=$?
git apply seeded/patch.diff || { echo "CONFIRM: patch does not apply"; exit 2; }
cmake --build "$B" -j8 >/dev/null 2>&1 || { echo "CONFIRM: patched build failed"; git checkout -q -- .; exit 2; }
cmake -DBUILD_TESTING=ON "$B" >/dev/null 2>&1
ctest --test-dir "$B" -j8 >/tmp/confirm-ctest.$$ 2>&1; RC_TESTS=$?
sh seeded/demo/run.sh "$B/bin" >/tmp/confirm-patched.$$ 2>&1; RC_PATCHED=$?
git checkout -q -- .
rm -rf "$B"
echo "CONFIRM: demo_clean_rc=$RC_CLEAN tests_rc=$RC_TESTS demo_patched_rc=$RC_PATCHED"
tail -3 /tmp/confirm-ctest.$$
rm -f /tmp/confirm-*.$$
[ $RC_CLEAN -eq 0 ] && [ $RC_TESTS -eq 0 ] && [ $RC_PATCHED -ne 0 ]
