"""Exploration helper: run a property's judge over generated cases without stopping at the first failure and cluster the failure keys.
usage: python3-vt tools/explore.py C03 <cases-per-worker> <seed> [workers]"""
import collections, importlib, json, multiprocessing, sys, os
sys.path.insert(0, os.path.dirname(os.path.dirname(os.path.abspath(__file__))))
from vf import core
import hypothesis
from hypothesis import HealthCheck, Phase, given, settings

def work(a):
    pid, n, seed, w = a
    mod = importlib.import_module("vf.props." + pid.lower())
    ctx = core.Ctx(pid, "quick", seed)
    res = collections.defaultdict(lambda: [0, None, None])
    cls = collections.Counter()
    @hypothesis.seed(seed * 1000 + w)
    @settings(max_examples=n, database=None, deadline=None, suppress_health_check=list(HealthCheck), phases=[Phase.generate])
    @given(mod._strategy(ctx))
    def t(case):
        try:
            o = mod.judge(case, ctx)
        except core.Broken as e:
            o = core.Outcome(ok=False, key="BROKEN:" + str(e)[:60], detail=str(e))
        for c in o.classes: cls[c] += 1
        k = "ok" if o.ok else o.key
        res[k][0] += 1
        if not o.ok and (res[k][1] is None or len(json.dumps(case)) < len(json.dumps(res[k][2]))):
            res[k][1] = o.detail; res[k][2] = case
    t()
    return dict(res), cls

if __name__ == "__main__":
    pid, n, seed = sys.argv[1], int(sys.argv[2]), int(sys.argv[3])
    nw = int(sys.argv[4]) if len(sys.argv) > 4 else 16
    with multiprocessing.get_context("fork").Pool(nw) as pool:
        outs = pool.map(work, [(pid, n, seed, w) for w in range(nw)], chunksize=1)
    tot = collections.defaultdict(lambda: [0, None, None]); cls = collections.Counter()
    for res, c in outs:
        cls.update(c)
        for k, (cnt, det, case) in res.items():
            tot[k][0] += cnt
            if det and (tot[k][1] is None or len(json.dumps(case)) < len(json.dumps(tot[k][2]))):
                tot[k][1] = det; tot[k][2] = case
    os.makedirs("/tmp/explore", exist_ok=True)
    for i, (k, (cnt, det, case)) in enumerate(sorted(tot.items(), key=lambda x: -x[1][0])):
        print("%5d  %s" % (cnt, k))
        if det:
            print("       " + det[:700].replace("\n", "\n       "))
            json.dump({"case": case, "property": pid, "key": k, "detail": det}, open("/tmp/explore/%s-%d.json" % (pid, i), "w"))
            print("       case: /tmp/explore/%s-%d.json" % (pid, i))
    print(dict(cls))
