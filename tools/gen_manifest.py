#!/usr/bin/env python3
"""Regenerates /verif/MANIFEST.json from the property modules that exist."""
import importlib
import json
import os
import sys

sys.path.insert(0, os.path.dirname(os.path.dirname(os.path.abspath(__file__))))
VERIF = os.path.dirname(os.path.dirname(os.path.abspath(__file__)))

LEVEL_TEXT = {
    "exploration": "generated-input search against an explicit oracle; says 'held on everything explored', measured in the evidence file",
    "fault_enumeration": "every fault position of each generated case is enumerated (k-th write/close), the cases themselves are generated",
}

props = [json.loads(l) for l in open(os.path.join(VERIF, "properties.jsonl"))]
checks, na = [], []
for p in props:
    pid = p["id"]
    try:
        mod = importlib.import_module("vf.props." + pid.lower())
    except ImportError:
        na.append({"property_id": pid, "reason": "check not built yet in this session (planned in DESIGN.md section 3 %s); nothing is claimed for it" % pid})
        continue
    checks.append({
        "property_id": pid,
        "quick_cmd": "./check %s --tier quick" % pid,
        "thorough_cmd": "./check %s --tier thorough" % pid,
        "evidence_file": "/verif/evidence/%s.json" % pid,
        "replay_cmd_template": "./check %s --replay {path}" % pid,
        "engine": getattr(mod, "ENGINE", "hypothesis"),
        "level_claimed": {"category": mod.LEVEL, "text": getattr(mod, "LEVEL_TEXT", LEVEL_TEXT[mod.LEVEL]),
                          "design_ref": "DESIGN.md section 3, %s" % pid},
        "level_note": "; ".join(mod.ASSUMPTIONS),
        "technique": mod.TECHNIQUE,
    })

hooks_commits = []
hc = os.path.join(VERIF, "hooks_commits.txt")
if os.path.exists(hc):
    hooks_commits = [l.strip() for l in open(hc) if l.strip()]

man = {
    "version": 1,
    "setup_cmd": "./check --setup",
    "hooks": {
        "guard": "PANDA3D_INTERROGATE_VERIF",
        "enable": "every build made by vf/build.py passes -DPANDA3D_INTERROGATE_VERIF in CMAKE_CXX_FLAGS (cmake -G Ninja -S /repo -B /verif/.cache/build/<tree-hash>/<variant>)",
        "baseline_off_cmd": "/verif/tools/run_baseline.sh",
        "source_commits": hooks_commits,
        "add_only": True,
    },
    "engines": [
        {"name": "hypothesis", "path": "/opt/veriftools/pyvenv (python3-vt)", "serves_properties": [c["property_id"] for c in checks if "hypothesis" in c["engine"]],
         "kind_free_text": "property-based testing with shrinking; 16 seeded worker processes per check"},
        {"name": "libFuzzer", "path": "clang-14 -fsanitize=fuzzer,address,undefined", "serves_properties": [c["property_id"] for c in checks if "libfuzzer" in c["engine"].lower()],
         "kind_free_text": "coverage-guided byte-level fuzzing of the linked parser/database libraries"},
        {"name": "rapidcheck", "path": "-lrapidcheck", "serves_properties": [c["property_id"] for c in checks if "rapidcheck" in c["engine"].lower()],
         "kind_free_text": "C++ property-based testing of the pure library functions"},
    ],
    "checks": checks,
    "not_applicable": na,
    "notes": "All checks: ./check <id> --tier quick|thorough; exit 0 held / 1 VIOLATION / 2 check broken. Known findings: /verif/known_findings.json.",
}
with open(os.path.join(VERIF, "MANIFEST.json"), "w") as f:
    json.dump(man, f, indent=1)
try:
    import jsonschema
    jsonschema.validate(man, json.load(open("/root/.vp/MANIFEST.schema.json")))
    print("MANIFEST.json valid: %d checks, %d not claimed" % (len(checks), len(na)))
except ImportError:
    print("written (jsonschema not available)")
