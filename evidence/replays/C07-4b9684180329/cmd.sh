#!/bin/sh
cd /verif && exec ./check C07 --replay /verif/evidence/replays/C07-4b9684180329
