#!/bin/sh
cd /verif && exec ./check C07 --replay /verif/evidence/replays/C07-506c1e3fd20f
