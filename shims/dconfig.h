#pragma once
