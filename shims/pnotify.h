#pragma once
#include "dtoolbase.h"
#include <assert.h>
#include <iostream>
#include <string>
class Notify {
public:
  static Notify *ptr() { static Notify n; return &n; }
  bool has_assert_failed() const { return _failed; }
  const std::string &get_assert_error_message() const { return _msg; }
  void clear_assert_failed() { _failed = false; }
  static std::ostream &out() { return std::cerr; }
  bool _failed = false; std::string _msg;
};
#define nout (std::cerr)
#define nassertr(c, r) { assert(c); }
#define nassertv(c) { assert(c); }
#define nassertd(c) assert(c); if (false)
#define nassertr_always(c, r) nassertr(c, r)
#define nassertv_always(c) nassertv(c)
#define nassert_raise(m) do { std::cerr << m << std::endl; } while (0)
