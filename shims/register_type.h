#pragma once
#include <string>
#include <map>
#include <vector>
#include <Python.h>
class TypeHandle {
public:
  int _index = 0;
  static TypeHandle none() { return TypeHandle(); }
  static TypeHandle from_index(int i) { TypeHandle h; h._index = i; return h; }
  int get_index() const { return _index; }
  bool operator==(const TypeHandle &o) const { return _index == o._index; }
  bool operator!=(const TypeHandle &o) const { return _index != o._index; }
  PyObject *get_python_type() const { return nullptr; }
  PyObject *wrap_python(void *ptr, PyTypeObject *cast_from = nullptr) const { return nullptr; }
};
class TypeRegistry {
public:
  typedef PyObject *PythonWrapFunc(void *ptr, PyTypeObject *cast_from);
  static TypeRegistry *ptr() { static TypeRegistry r; return &r; }
  TypeHandle register_dynamic_type(const std::string &) { TypeHandle h; h._index = ++_n; return h; }
  void record_derivation(TypeHandle, TypeHandle) {}
  void record_python_type(TypeHandle, PyTypeObject *, PythonWrapFunc *) {}
  int _n = 0;
};
#define get_type_handle(T) (TypeHandle::none())
