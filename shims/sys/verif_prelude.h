#ifndef VERIF_PRELUDE_H
#define VERIF_PRELUDE_H
#ifdef CPPPARSER
#define PUBLISHED __published
#define BEGIN_PUBLISH __begin_publish
#define END_PUBLISH __end_publish
#define MAKE_PROPERTY(property_name, ...) __make_property(property_name, __VA_ARGS__)
#define MAKE_PROPERTY2(property_name, ...) __make_property2(property_name, __VA_ARGS__)
#define MAKE_SEQ(seq_name, num_name, element_name) __make_seq(seq_name, num_name, element_name)
#define MAKE_SEQ_PROPERTY(property_name, ...) __make_seq_property(property_name, __VA_ARGS__)
#define MAKE_MAP_PROPERTY(property_name, ...) __make_map_property(property_name, __VA_ARGS__)
#define MAKE_MAP_KEYS_SEQ(property_name, ...) __make_map_keys_seq(property_name, __VA_ARGS__)
#define VF_INIT(x)
#else
#define VF_INIT(x) = x
#define PUBLISHED public
#define BEGIN_PUBLISH
#define END_PUBLISH
#define MAKE_PROPERTY(property_name, ...)
#define MAKE_PROPERTY2(property_name, ...)
#define MAKE_SEQ(seq_name, num_name, element_name)
#define MAKE_SEQ_PROPERTY(property_name, ...)
#define MAKE_MAP_PROPERTY(property_name, ...)
#define MAKE_MAP_KEYS_SEQ(property_name, ...)
#endif
#endif
