// Instrumentation runtime for generated libraries (C01/C02/C03).  Never seen by interrogate.
#ifndef VERIF_RT_H
#define VERIF_RT_H
#ifndef CPPPARSER
#include <cstdio>
#include <cstdlib>
#include <cstring>
#include <string>

inline FILE *&vf_file() { static FILE *f = nullptr; return f; }
inline void vf_emit(const std::string &line) {
  FILE *&f = vf_file();
  if (f == nullptr) {
    const char *p = getenv("VF_TRACE");
    f = fopen(p ? p : "/dev/null", "a");
    if (f == nullptr) return;
  }
  fputs(line.c_str(), f);
  fputc('\n', f);
  fflush(f);
}
inline int &vf_counter() { static int c = 0; return c; }
inline int &vf_live() { static int c = 0; return c; }
inline int &vf_uid() { static int c = 0; return c; }

// tag: logical identity (a copy carries the tag of its source); uid: one per C++ object
struct VfLife {
  int tag;
  int uid;
  VfLife() : tag(++vf_counter()), uid(++vf_uid()) { ++vf_live(); vf_emit("BIRTH " + std::to_string(tag) + " u" + std::to_string(uid)); }
  VfLife(const VfLife &o) : tag(o.tag), uid(++vf_uid()) { ++vf_live(); vf_emit("COPY " + std::to_string(tag) + " u" + std::to_string(uid) + " from u" + std::to_string(o.uid)); }
  VfLife &operator=(const VfLife &o) { tag = o.tag; return *this; }     // assignment makes this object a copy of o as well
  ~VfLife() {
    if (uid <= 0) { vf_emit("DOUBLE-DEATH " + std::to_string(tag) + " u" + std::to_string(-uid)); return; }
    --vf_live(); vf_emit("DEATH " + std::to_string(tag) + " u" + std::to_string(uid)); uid = -uid;
  }
};

inline std::string vf_hex(const void *p, size_t n) {
  static const char *d = "0123456789abcdef";
  std::string s;
  const unsigned char *b = (const unsigned char *)p;
  for (size_t i = 0; i < n; ++i) { s += d[b[i] >> 4]; s += d[b[i] & 15]; }
  return s;
}
inline std::string vf_v(bool v) { return std::string("b:") + (v ? "1" : "0"); }
inline std::string vf_v(char v) { return "i8:" + std::to_string((int)(signed char)v); }
inline std::string vf_v(signed char v) { return "i8:" + std::to_string((int)v); }
inline std::string vf_v(unsigned char v) { return "u8:" + std::to_string((int)v); }
inline std::string vf_v(short v) { return "i16:" + std::to_string(v); }
inline std::string vf_v(unsigned short v) { return "u16:" + std::to_string(v); }
inline std::string vf_v(int v) { return "i32:" + std::to_string(v); }
inline std::string vf_v(unsigned int v) { return "u32:" + std::to_string(v); }
inline std::string vf_v(long v) { return "i64:" + std::to_string(v); }
inline std::string vf_v(unsigned long v) { return "u64:" + std::to_string(v); }
inline std::string vf_v(long long v) { return "i64:" + std::to_string(v); }
inline std::string vf_v(unsigned long long v) { return "u64:" + std::to_string(v); }
inline std::string vf_v(float v) { return "f32:" + vf_hex(&v, 4); }
inline std::string vf_v(double v) { return "f64:" + vf_hex(&v, 8); }
inline std::string vf_v(const char *s) { return s ? "s:" + vf_hex(s, strlen(s)) : std::string("nil"); }
inline std::string vf_v(const std::string &s) { return "s:" + vf_hex(s.data(), s.size()); }
template<class E> inline std::string vf_e(E v) { return "e:" + std::to_string((long long)v); }
template<class K> inline std::string vf_o(const K *p) {
  if (p == nullptr) return "nil";
  return "o:" + std::to_string(p->vf_life.tag) + (p->vf_life.uid <= 0 ? "!DEAD" : "");
}
inline long long vf_num(bool v) { return v; }
inline long long vf_num(float v) { return (long long)(v * 4); }
inline long long vf_num(double v) { return (long long)(v * 4); }
template<class T> inline long long vf_num(T v) { return (long long)v; }
inline long long vf_len(const char *s) { return s ? (long long)strlen(s) : -1; }
inline long long vf_len(const std::string &s) { return (long long)s.size(); }
#endif
#endif
