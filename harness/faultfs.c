/* LD_PRELOAD fault injector for output files (C19).
 *   FAULTFS_TARGET  substring of the path whose descriptor is watched
 *   FAULTFS_K       1-based index of the write/writev/close operation on that descriptor that fails
 *                   (and every later one); 0 = never fail, only count
 *   FAULTFS_MODE    enospc | eio | short   (short: the k-th write transfers only part of the data once; not a fault)
 *   FAULTFS_ONCE    1: only the k-th operation fails (a transient fault); default: the k-th and every later one
 *   FAULTFS_LOG     file that receives one line per event: "OP n write|writev|close", "FAULT n <mode>", "SHORT n"
 */
#define _GNU_SOURCE
#include <dlfcn.h>
#include <errno.h>
#include <fcntl.h>
#include <stdarg.h>
#include <stdio.h>
#include <stdlib.h>
#include <string.h>
#include <sys/uio.h>
#include <unistd.h>

static int watched[64];
static int n_watched = 0;
static long n_ops = 0;
static int short_done = 0;

static const char *target(void) { const char *t = getenv("FAULTFS_TARGET"); return (t && *t) ? t : NULL; }
static long kfail(void) { const char *k = getenv("FAULTFS_K"); return k ? atol(k) : 0; }
static const char *mode(void) { const char *m = getenv("FAULTFS_MODE"); return m ? m : "enospc"; }

static void logline(const char *fmt, long n, const char *what) {
  const char *p = getenv("FAULTFS_LOG");
  if (!p) return;
  static ssize_t (*real_write)(int, const void *, size_t);
  if (!real_write) real_write = dlsym(RTLD_NEXT, "write");
  static int (*real_open)(const char *, int, ...);
  if (!real_open) real_open = dlsym(RTLD_NEXT, "open");
  static int (*real_close)(int);
  if (!real_close) real_close = dlsym(RTLD_NEXT, "close");
  int fd = real_open(p, O_WRONLY | O_APPEND | O_CREAT, 0644);
  if (fd < 0) return;
  char buf[128];
  int len = snprintf(buf, sizeof buf, fmt, n, what);
  real_write(fd, buf, len);
  real_close(fd);
}

static int is_watched(int fd) {
  for (int i = 0; i < n_watched; ++i) if (watched[i] == fd) return 1;
  return 0;
}
static void watch(int fd, const char *path) {
  const char *t = target();
  if (fd < 0 || !t || !path || !strstr(path, t)) return;
  if (!is_watched(fd) && n_watched < 64) watched[n_watched++] = fd;
}
static void unwatch(int fd) {
  for (int i = 0; i < n_watched; ++i) if (watched[i] == fd) { watched[i] = watched[--n_watched]; return; }
}
/* returns 1 if this operation must fail */
static int tick(const char *what) {
  ++n_ops;
  logline("OP %ld %s\n", n_ops, what);
  long k = kfail();
  const char *once = getenv("FAULTFS_ONCE");
  if (k > 0 && (once && *once == '1' ? n_ops == k : n_ops >= k) && strcmp(mode(), "short") != 0) {
    logline("FAULT %ld %s\n", n_ops, mode());
    errno = strcmp(mode(), "eio") == 0 ? EIO : ENOSPC;
    return 1;
  }
  return 0;
}

int open(const char *path, int flags, ...) {
  static int (*real)(const char *, int, ...);
  if (!real) real = dlsym(RTLD_NEXT, "open");
  mode_t m = 0;
  if (flags & (O_CREAT | O_TMPFILE)) { va_list ap; va_start(ap, flags); m = va_arg(ap, mode_t); va_end(ap); }
  int fd = real(path, flags, m);
  if ((flags & O_ACCMODE) != O_RDONLY) watch(fd, path);
  return fd;
}
int open64(const char *path, int flags, ...) {
  static int (*real)(const char *, int, ...);
  if (!real) real = dlsym(RTLD_NEXT, "open64");
  mode_t m = 0;
  if (flags & (O_CREAT | O_TMPFILE)) { va_list ap; va_start(ap, flags); m = va_arg(ap, mode_t); va_end(ap); }
  int fd = real(path, flags, m);
  if ((flags & O_ACCMODE) != O_RDONLY) watch(fd, path);
  return fd;
}
int openat(int dirfd, const char *path, int flags, ...) {
  static int (*real)(int, const char *, int, ...);
  if (!real) real = dlsym(RTLD_NEXT, "openat");
  mode_t m = 0;
  if (flags & (O_CREAT | O_TMPFILE)) { va_list ap; va_start(ap, flags); m = va_arg(ap, mode_t); va_end(ap); }
  int fd = real(dirfd, path, flags, m);
  if ((flags & O_ACCMODE) != O_RDONLY) watch(fd, path);
  return fd;
}
FILE *fopen(const char *path, const char *md) {
  static FILE *(*real)(const char *, const char *);
  if (!real) real = dlsym(RTLD_NEXT, "fopen");
  FILE *f = real(path, md);
  if (f && md && (strchr(md, 'w') || strchr(md, 'a') || strchr(md, '+'))) watch(fileno(f), path);
  return f;
}
FILE *fopen64(const char *path, const char *md) {
  static FILE *(*real)(const char *, const char *);
  if (!real) real = dlsym(RTLD_NEXT, "fopen64");
  FILE *f = real(path, md);
  if (f && md && (strchr(md, 'w') || strchr(md, 'a') || strchr(md, '+'))) watch(fileno(f), path);
  return f;
}
ssize_t write(int fd, const void *buf, size_t n) {
  static ssize_t (*real)(int, const void *, size_t);
  if (!real) real = dlsym(RTLD_NEXT, "write");
  if (is_watched(fd)) {
    if (tick("write")) return -1;
    if (strcmp(mode(), "short") == 0 && !short_done && kfail() > 0 && n_ops >= kfail() && n > 1) {
      short_done = 1;
      logline("SHORT %ld %s\n", n_ops, "write");
      return real(fd, buf, n / 2);
    }
  }
  return real(fd, buf, n);
}
ssize_t writev(int fd, const struct iovec *iov, int cnt) {
  static ssize_t (*real)(int, const struct iovec *, int);
  if (!real) real = dlsym(RTLD_NEXT, "writev");
  if (is_watched(fd)) {
    if (tick("writev")) return -1;
    if (strcmp(mode(), "short") == 0 && !short_done && kfail() > 0 && n_ops >= kfail() && cnt > 0 && iov[0].iov_len > 1) {
      static ssize_t (*rw)(int, const void *, size_t);
      if (!rw) rw = dlsym(RTLD_NEXT, "write");
      short_done = 1;
      logline("SHORT %ld %s\n", n_ops, "writev");
      return rw(fd, iov[0].iov_base, iov[0].iov_len / 2);
    }
  }
  return real(fd, iov, cnt);
}
int close(int fd) {
  static int (*real)(int);
  if (!real) real = dlsym(RTLD_NEXT, "close");
  if (is_watched(fd)) {
    int fail = tick("close");
    unwatch(fd);
    int r = real(fd);
    if (fail) { errno = strcmp(mode(), "eio") == 0 ? EIO : ENOSPC; return -1; }
    return r;
  }
  return real(fd);
}
int fclose(FILE *f) {
  static int (*real)(FILE *);
  if (!real) real = dlsym(RTLD_NEXT, "fclose");
  int fd = f ? fileno(f) : -1;
  if (fd >= 0 && is_watched(fd)) {
    /* flush first so that buffered data goes through write(); then account the close itself */
    int flush_failed = fflush(f) != 0;
    int fail = tick("close");
    unwatch(fd);
    int r = real(f);
    if (fail || flush_failed) { errno = strcmp(mode(), "eio") == 0 ? EIO : ENOSPC; return EOF; }
    return r;
  }
  return real(f);
}
