// C15 libFuzzer target: the front-end (preprocessor + parser + expression evaluation) must be total.
// Input layout: byte 0 selects the channel (source file / included file / -D definition / preprocess only),
// bit 4 adds -D__cplusplus; the rest is the payload.  A fresh CPPParser is used per input; after a
// successful parse the parse tree is written out and every enumerator / array bound / initialiser
// reachable from the global scope is evaluated (what InterrogateBuilder does with it).
#include <cstdint>
#include <cstdio>
#include <cstdlib>
#include <cstring>
#include <fstream>
#include <iostream>
#include <sstream>
#include <string>
#include <unistd.h>
#include "cppParser.h"
#include "cppManifest.h"
#include "cppEnumType.h"
#include "cppArrayType.h"
#include "cppStructType.h"
#include "cppInstance.h"
#include "cppExpression.h"
#include "cppTypeDeclaration.h"
#include "cppTypedefType.h"
#include "cppFunctionType.h"
#include "cppFunctionGroup.h"
#include "cppParameterList.h"
#include "cppNamespace.h"

static std::string dir;
static long n_exec = 0;

static void init_dir() {
  if (!dir.empty()) return;
  char tmpl[] = "/dev/shm/fzparse-XXXXXX";
  if (!mkdtemp(tmpl)) abort();
  dir = tmpl;
}

static void put(const std::string &name, const uint8_t *data, size_t size) {
  std::ofstream f((dir + "/" + name).c_str(), std::ios::binary | std::ios::trunc);
  f.write((const char *)data, size);
}

static void eval_type(CPPType *type, int depth);
static void eval_decl(CPPDeclaration *decl, int depth) {
  if (decl == nullptr || depth > 6) return;
  if (CPPInstance *inst = decl->as_instance()) {
    if (inst->_initializer != nullptr) {
      inst->_initializer->evaluate();
      inst->_initializer->determine_type();
    }
    if (inst->_type != nullptr) eval_type(inst->_type, depth + 1);
  } else if (CPPTypeDeclaration *td = decl->as_type_declaration()) {
    eval_type(td->_type, depth + 1);
  } else if (CPPTypedefType *tt = decl->as_typedef_type()) {
    eval_type(tt->_type, depth + 1);
  } else if (CPPNamespace *ns = decl->as_namespace()) {
    CPPScope *scope = ns->get_scope();
    if (scope) for (CPPDeclaration *d : scope->_declarations) eval_decl(d, depth + 1);
  } else if (CPPType *t = decl->as_type()) {
    eval_type(t, depth + 1);
  }
}
static void eval_type(CPPType *type, int depth) {
  if (type == nullptr || depth > 6) return;
  if (CPPEnumType *et = type->as_enum_type()) {
    for (CPPInstance *el : et->_elements) if (el && el->_initializer) el->_initializer->evaluate();
  } else if (CPPArrayType *at = type->as_array_type()) {
    if (at->_bounds) at->_bounds->evaluate();
    eval_type(at->_element_type, depth + 1);
  } else if (CPPStructType *st = type->as_struct_type()) {
    st->is_abstract();
    st->is_default_constructible();
    st->is_copy_constructible();
    st->is_destructible();
    st->is_polymorphic();
    st->is_trivial();
    st->is_trivially_copyable();
    st->is_standard_layout();
    st->is_empty();
    st->is_move_constructible();
    st->is_copy_assignable();
    st->is_move_assignable();
    st->is_constructible(st);
    st->is_base_of(st);
    CPPScope *scope = st->get_scope();
    if (scope) for (CPPDeclaration *d : scope->_declarations) eval_decl(d, depth + 1);
  } else if (CPPFunctionType *ft = type->as_function_type()) {
    if (ft->_parameters) for (CPPInstance *p : ft->_parameters->_parameters) if (p && p->_initializer) p->_initializer->evaluate();
  }
}

extern "C" int LLVMFuzzerTestOneInput(const uint8_t *data, size_t size) {
  init_dir();
  if (size < 1 || size > 65536) return 0;
  ++n_exec;
  int sel = data[0];
  const uint8_t *payload = data + 1;
  size_t n = size - 1;
  static std::ofstream devnull("/dev/null");
  std::streambuf *old_err = std::cerr.rdbuf(devnull.rdbuf());
  std::streambuf *old_out = std::cout.rdbuf(devnull.rdbuf());
  {
    CPPParser parser;
    parser.set_verbose((sel & 0x20) ? 1 : 0);      // diagnostics are formatted (and the offending line re-read) only when verbose
    parser._quote_include_path.append_directory(dir + "/inc");
    parser._quote_include_kind.push_back(CPPFile::S_alternate);
    if (sel & 0x10) {
      CPPManifest *m = new CPPManifest(parser, "__cplusplus", "201703L");
      parser._manifests[m->_name] = m;
    }
    bool ok = false;
    switch (sel & 3) {
    case 0:
      put("main.h", payload, n);
      ok = parser.parse_file(dir + "/main.h");
      break;
    case 1: {
      put("inc.h", payload, n);
      const char *m = "#include \"inc.h\"\nint after_include;\n";
      put("main.h", (const uint8_t *)m, strlen(m));
      ok = parser.parse_file(dir + "/main.h");
      break; }
    case 2: {
      // -D NAME=VALUE : the payload up to the first NUL/newline is the option text
      std::string opt((const char *)payload, n);
      size_t cut = opt.find_first_of(std::string("\0\n", 2));
      std::string rest = cut == std::string::npos ? "" : opt.substr(cut + 1);
      if (cut != std::string::npos) opt = opt.substr(0, cut);
      std::string name = opt, def;
      size_t eq = opt.find('=');
      if (eq != std::string::npos) { name = opt.substr(0, eq); def = opt.substr(eq + 1); }
      if (name.empty() || isspace((unsigned char)name[0])) break;     // the tools reject such an option before it reaches the library
      CPPManifest *m = new CPPManifest(parser, name, def);
      parser._manifests[m->_name] = m;
      std::string src = "int before;\n" + rest + "\n#ifdef " + (name.empty() ? std::string("X") : name.substr(0, name.find('('))) + "\nint defined_it;\n#endif\n";
      put("main.h", (const uint8_t *)src.data(), src.size());
      ok = parser.parse_file(dir + "/main.h");
      break; }
    default:
      put("main.h", payload, n);
      ok = parser.preprocess_file(dir + "/main.h");
      break;
    }
    if (ok && (sel & 3) != 3) {
      std::ostringstream out;
      parser.write(out, 0, &parser);
      for (CPPDeclaration *d : parser._declarations) eval_decl(d, 0);
      for (auto &mi : parser._manifests) {
        CPPManifest *m = mi.second;
        if (m != nullptr && !m->_has_parameters) {
          m->expand();
          if (m->_expr != nullptr) { m->_expr->evaluate(); m->determine_type(); }
        }
      }
    }
  }
  std::cerr.rdbuf(old_err);
  std::cout.rdbuf(old_out);
  return 0;
}
