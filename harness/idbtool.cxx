// Script-driven driver of the interrogate query interface (one process per script).
// Commands on stdin, one per line; results on stdout, flushed per command:
//   req <path>                                   interrogate_request_database
//   reqmod <path> <file_id> <lib> [<first> <next> [<n> (<hexname> <offset>)*]]   interrogate_request_module
//   flag                                         -> FLAG 0|1
//   next                                         -> NEXT <next_index>
//   call <fn> [<a> [<b>]]                        -> R <json>
//   byname <fn> <hex>                            -> R <json>
//   dump                                         -> reachable dump through the C interface, terminated by ENDDUMP
//   sweep <lo> <hi>                              -> every interface function x index/position sweep, ENDSWEEP
//   write <path> <file_id> <hexlib> <hexhash> <hexmodule>     InterrogateDatabase::write
//   echo <text>
#include <climits>
#include <cstdarg>
#include <iterator>
#include <sys/wait.h>
#include <unistd.h>
#include <cstdio>
#include <cstdlib>
#include <cstring>
#include <fstream>
#include <iostream>
#include <map>
#include <set>
#include <sstream>
#include <string>
#include <vector>
#include "interrogate_interface.h"
#include "interrogate_request.h"
#include "interrogateDatabase.h"

static std::string jstr(const char *s) {
  if (s == nullptr) return "null";
  std::string o = "\"";
  for (const unsigned char *p = (const unsigned char *)s; *p; ++p) {
    char b[8];
    if (*p == '"' || *p == '\\') { o += '\\'; o += (char)*p; }
    else if (*p < 0x20 || *p >= 0x7f) { snprintf(b, sizeof b, "\\u%04x", *p); o += b; }
    else o += (char)*p;
  }
  return o + "\"";
}
static std::string J(bool v) { return v ? "true" : "false"; }
static std::string J(int v) { return std::to_string(v); }
static std::string J(AtomicToken v) { return std::to_string((int)v); }
static std::string J(const char *v) { return jstr(v); }
static std::string J(void *v) { return v ? "\"ptr\"" : "null"; }

static char *keep(const std::string &s) { return strdup(s.c_str()); }

#include "iface_gen.inc"

static std::string unhex(const std::string &h) {
  std::string o;
  if (h == "-") return o;
  for (size_t i = 0; i + 1 < h.size(); i += 2) o += (char)strtol(h.substr(i, 2).c_str(), nullptr, 16);
  return o;
}
static const IfaceFn *find_fn(const std::string &n) {
  for (int i = 0; i < n_iface_fns; ++i) if (n == iface_fns[i].name) return &iface_fns[i];
  return nullptr;
}
static int count_for(const IfaceFn &f, int idx) {
  if (f.count[0] == 0) return -1;
  const IfaceFn *c = find_fn(f.count);
  if (!c) return -1;
  if (c->c1) return atoi(c->c1(idx).c_str());
  if (c->c0) return atoi(c->c0().c_str());
  return -1;
}

// ---- reachable dump ------------------------------------------------------------------------------
static std::map<char, std::set<int>> seen;
static std::vector<std::pair<char, int>> work;
static void reach(char kind, int idx) {
  if (idx == 0) return;
  if (seen[kind].insert(idx).second) work.push_back({kind, idx});
}
static std::string *dout;
static void outf(const char *fmt, ...) __attribute__((format(printf, 1, 2)));
static void outf(const char *fmt, ...) {
  char buf[4096];
  va_list ap; va_start(ap, fmt);
  int n = vsnprintf(buf, sizeof buf, fmt, ap);
  va_end(ap);
  if (n >= (int)sizeof buf) {
    std::vector<char> big(n + 1);
    va_start(ap, fmt); vsnprintf(big.data(), n + 1, fmt, ap); va_end(ap);
    dout->append(big.data(), n);
  } else dout->append(buf, n);
}
static void dump_record(char kind, int idx) {
  outf("REC %c %d", kind, idx);
  for (int i = 0; i < n_iface_fns; ++i) {
    const IfaceFn &f = iface_fns[i];
    if (f.kind != kind) continue;
    if (f.c1) {
      std::string v = f.c1(idx);
      outf(" %s=", f.name); dout->append(v);
      if (f.rk >= 'A' && f.rk <= 'Z') reach((char)(f.rk + 32), atoi(v.c_str()));
    } else if (f.c2) {
      int n = count_for(f, idx);
      if (n < 0) n = 0;
      if (n > 100000) n = 100000;
      outf(" %s=[", f.name);
      for (int k = 0; k < n; ++k) {
        std::string v = f.c2(idx, k);
        if (k) dout->append(","); dout->append(v);
        if (f.rk >= 'A' && f.rk <= 'Z') reach((char)(f.rk + 32), atoi(v.c_str()));
      }
      dout->append("]");
    }
  }
  dout->append("\n");
}
static std::string do_dump() {
  std::string out; dout = &out;
  seen.clear(); work.clear();
  for (int i = 0; i < n_iface_fns; ++i) {
    const IfaceFn &f = iface_fns[i];
    if (strcmp(f.shape, "nullary") == 0) { outf("NUL %s=", f.name); out.append(f.c0()); out.append("\n"); }
  }
  for (int i = 0; i < n_iface_fns; ++i) {
    const IfaceFn &f = iface_fns[i];
    if (strcmp(f.shape, "bypos") != 0) continue;
    int n = count_for(f, 0);
    outf("ENUM %s=[", f.name);
    for (int k = 0; k < n; ++k) {
      std::string v = f.c1(k);
      if (k) out.append(","); out.append(v);
      if (f.rk >= 'A' && f.rk <= 'Z') reach((char)(f.rk + 32), atoi(v.c_str()));
    }
    out.append("]\n");
  }
  for (size_t w = 0; w < work.size(); ++w) dump_record(work[w].first, work[w].second);
  out.append("ENDDUMP\n");
  return out;
}
static unsigned long long fnv(const std::string &s) {
  unsigned long long h = 1469598103934665603ull;
  // the error flag line is excluded from the digest: it is reported separately
  size_t p = 0;
  while (p < s.size()) {
    size_t e = s.find('\n', p); if (e == std::string::npos) e = s.size();
    if (s.compare(p, 27, "NUL interrogate_error_flag=") != 0)
      for (size_t i = p; i < e; ++i) { h ^= (unsigned char)s[i]; h *= 1099511628211ull; }
    p = e + 1;
  }
  return h;
}

// every prefix of <path> (step apart, plus the last 64) loaded in a forked child, optionally after <first>
static void do_prefixes(const std::string &path, int step, const std::string &first) {
  std::ifstream in(path.c_str(), std::ios::binary);
  std::string data((std::istreambuf_iterator<char>(in)), std::istreambuf_iterator<char>());
  char tmpl[] = "/dev/shm/idbpfx-XXXXXX";
  int fd = mkstemp(tmpl); if (fd < 0) { printf("ERR mkstemp\n"); return; }
  close(fd);
  std::vector<long> lens;
  for (long L = 0; L < (long)data.size(); L += step) lens.push_back(L);
  for (long L = (long)data.size() - 64; L < (long)data.size(); ++L) if (L > 0 && L % step != 0) lens.push_back(L);
  lens.push_back(-1);   // the full file
  lens.push_back(-2);   // nothing but <first>
  for (long L : lens) {
    { std::ofstream o(tmpl, std::ios::binary | std::ios::trunc); if (L == -1) o << data; else if (L >= 0) o.write(data.data(), L); }
    fflush(stdout);
    pid_t pid = fork();
    if (pid == 0) {
      alarm(20);
      if (!first.empty()) { interrogate_request_database(keep(first)); interrogate_number_of_types(); }
      if (L != -2) interrogate_request_database(tmpl);
      std::string d = do_dump();
      printf("PFX %ld %d %016llx\n", L, interrogate_error_flag() ? 1 : 0, fnv(d));
      fflush(stdout);
      _exit(0);
    }
    int st = 0; waitpid(pid, &st, 0);
    if (!WIFEXITED(st) || WEXITSTATUS(st) != 0) printf("PFX %ld CRASH %d\n", L, WIFSIGNALED(st) ? WTERMSIG(st) : 1000 + WEXITSTATUS(st));
  }
  unlink(tmpl);
  printf("ENDPFX %ld\n", (long)data.size());
}

static void do_sweep(int lo, int hi) {
  std::vector<int> idxs;
  for (int i = lo; i <= hi; ++i) idxs.push_back(i);
  idxs.push_back(INT_MIN); idxs.push_back(INT_MAX); idxs.push_back(INT_MIN + 1); idxs.push_back(1 << 30);
  for (int i = 0; i < n_iface_fns; ++i) {
    const IfaceFn &f = iface_fns[i];
    printf("BEGIN %s\n", f.name); fflush(stdout);
    if (f.c0) { printf("N %s %s\n", f.name, f.c0().c_str()); continue; }
    if (f.cs) continue;
    if (strcmp(f.shape, "bypos") == 0) {
      int n = count_for(f, 0);
      std::vector<int> ps; for (int k = -2; k <= n + 2; ++k) ps.push_back(k);
      ps.push_back(INT_MIN); ps.push_back(INT_MAX);
      for (int k : ps) printf("P %s %d %d %s\n", f.name, n, k, f.c1(k).c_str());
      continue;
    }
    for (int idx : idxs) {
      if (f.c1) { printf("U %s %d %s\n", f.name, idx, f.c1(idx).c_str()); continue; }
      int n = count_for(f, idx);
      int top = n < 0 ? 2 : n + 2;
      if (top > 200) top = 200;
      for (int k = -2; k <= top; ++k) printf("B %s %d %d %d %s\n", f.name, idx, n, k, f.c2(idx, k).c_str());
      printf("B %s %d %d %d %s\n", f.name, idx, n, INT_MAX, f.c2(idx, INT_MAX).c_str());
      printf("B %s %d %d %d %s\n", f.name, idx, n, INT_MIN, f.c2(idx, INT_MIN).c_str());
    }
  }
  printf("ENDSWEEP\n");
}


int main() {
  std::string line;
  while (std::getline(std::cin, line)) {
    std::istringstream is(line);
    std::string cmd; is >> cmd;
    if (cmd == "req") { std::string p; is >> p; interrogate_request_database(keep(p)); printf("OK\n"); }
    else if (cmd == "reqmod") {
      std::string p, lib; int fid; is >> p >> fid >> lib;
      InterrogateModuleDef *def = new InterrogateModuleDef;
      memset(def, 0, sizeof(*def));
      std::string hash;
      size_t colon = lib.find(':');
      if (colon != std::string::npos) { hash = lib.substr(colon + 1); lib = lib.substr(0, colon); }
      def->file_identifier = fid; def->library_name = keep(lib); def->library_hash_name = keep(hash);
      def->module_name = keep("m"); def->database_filename = p == "-" ? nullptr : keep(p);
      int first = 0, next = 0, n = 0;
      if (is >> first >> next) { def->first_index = first; def->next_index = next; }
      if (is >> n) {
        def->unique_names = new InterrogateUniqueNameDef[n + 1];
        def->num_unique_names = n;
        for (int i = 0; i < n; ++i) { std::string h; int off; is >> h >> off; def->unique_names[i].name = keep(unhex(h)); def->unique_names[i].index_offset = off; }
      }
      interrogate_request_module(def); printf("OK\n");
    }
    else if (cmd == "flag") printf("FLAG %d\n", interrogate_error_flag() ? 1 : 0);
    else if (cmd == "next") printf("NEXT %d\n", InterrogateDatabase::get_ptr()->get_next_index());
    else if (cmd == "call") {
      std::string fn; is >> fn; const IfaceFn *f = find_fn(fn);
      int a = 0, b = 0; is >> a >> b;
      if (!f) printf("R \"nofn\"\n");
      else if (f->c0) printf("R %s\n", f->c0().c_str());
      else if (f->c1) printf("R %s\n", f->c1(a).c_str());
      else if (f->c2) printf("R %s\n", f->c2(a, b).c_str());
      else printf("R \"badshape\"\n");
    }
    else if (cmd == "byname") {
      std::string fn, h; is >> fn >> h; const IfaceFn *f = find_fn(fn);
      if (!f || !f->cs) printf("R \"nofn\"\n"); else printf("R %s\n", f->cs(unhex(h).c_str()).c_str());
    }
    else if (cmd == "dump") { std::string d = do_dump(); fputs(d.c_str(), stdout); }
    else if (cmd == "digest") { std::string d = do_dump(); printf("DIGEST %016llx\n", fnv(d)); }
    else if (cmd == "prefixes") { std::string p, first; int step = 1; is >> p >> step >> first; do_prefixes(p, step, first); }
    else if (cmd == "sweep") { int lo, hi; is >> lo >> hi; do_sweep(lo, hi); }
    else if (cmd == "write") {
      std::string p, lib, hash, mod; int fid; is >> p >> fid >> lib >> hash >> mod;
      InterrogateModuleDef def; memset(&def, 0, sizeof def);
      def.file_identifier = fid; def.library_name = keep(unhex(lib)); def.library_hash_name = keep(unhex(hash)); def.module_name = keep(unhex(mod));
      interrogate_number_of_types();   // force loading of pending requests
      std::ofstream out(p.c_str(), std::ios::binary);
      InterrogateDatabase::get_ptr()->write(out, &def);
      out.close();
      printf("OK\n");
    }
    else if (cmd == "echo") { std::string r; std::getline(is, r); printf("ECHO%s\n", r.c_str()); }
    else if (!cmd.empty()) printf("ERR unknown command %s\n", cmd.c_str());
    fflush(stdout);
  }
  return 0;
}
