/* LD_PRELOAD allocator shim (C14): perturbs the relative order of heap addresses without changing
 * any other program-visible behaviour.  For every small request it first allocates 0-3 dummies of the
 * same size, then the real block, then frees the dummies in a random order.  SHUFFLEALLOC_SEED selects
 * the permutation stream; the shim is deterministic for a given seed. */
#define _GNU_SOURCE
#include <stddef.h>
#include <stdlib.h>
#include <string.h>
extern void *__libc_malloc(size_t);
extern void __libc_free(void *);
static unsigned long long st; static int inited;
static unsigned rnd(void) { st ^= st << 13; st ^= st >> 7; st ^= st << 17; return (unsigned)(st >> 11); }
static void init(void) { inited = 1; const char *e = getenv("SHUFFLEALLOC_SEED"); st = 0x9E3779B97F4A7C15ULL ^ (e ? strtoull(e, 0, 10) * 0x2545F4914F6CDD1DULL : 0); if (!st) st = 1; }
void *malloc(size_t n) {
  if (!inited) init();
  if (n == 0 || n > 4096) return __libc_malloc(n);
  unsigned k = rnd() % 4;
  void *d[4];
  for (unsigned i = 0; i < k; i++) d[i] = __libc_malloc(n);
  void *p = __libc_malloc(n);
  for (unsigned i = 0; i < k; i++) { unsigned j = rnd() % k; void *t = d[i]; d[i] = d[j]; d[j] = t; }
  for (unsigned i = 0; i < k; i++) __libc_free(d[i]);
  return p;
}
