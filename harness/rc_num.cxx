// C18 library-level harness: pdtoa / pstrtod against glibc's correctly rounded strtod.
//   rc_num fmt      : rapidcheck, stratified doubles x: strtod_C(pdtoa(x)) == x bitwise
//   rc_num parse    : rapidcheck, decimal literal spellings s: pstrtod(s) == strtod_C(s) bitwise, under C and xx_COMMA
//   rc_num f32 A B  : exhaustive float32 bit patterns [A,B): widened to double, same as fmt
//   rc_num one-fmt <hexbits> | one-parse <string>   : replay one case; exit 1 if it fails
// RC_PARAMS configures rapidcheck (seed, max_success, max_size).  Prints "STAT key value" lines.
#include <rapidcheck.h>
#include <clocale>
#include <cmath>
#include <cstdint>
#include <cstdio>
#include <cstdlib>
#include <cstring>
#include <locale.h>
#include <string>
#include <unordered_set>
#include "pdtoa.h"
#include "pstrtod.h"

static locale_t c_loc;
static double strtod_c(const char *s, char **end) { return strtod_l(s, end, c_loc); }
static uint64_t bits(double d) { uint64_t u; memcpy(&u, &d, 8); return u; }
static double from_bits(uint64_t u) { double d; memcpy(&d, &u, 8); return d; }

static long n_eval = 0, n_nontrivial = 0;
static std::unordered_set<uint64_t> distinct;
static std::string samples[4]; static int n_samples = 0;
static bool comma_locale_active = false;

static bool check_fmt(double x, std::string *why) {
  char buf[64];
  memset(buf, 0x7f, sizeof(buf));
  pdtoa(x, buf);
  size_t len = strnlen(buf, sizeof(buf));
  if (len >= 32) { *why = "pdtoa wrote an unterminated/overlong string"; return false; }
  char *end = nullptr;
  double back = strtod_c(buf, &end);
  ++n_eval;
  int digits = 0; for (char *p = buf; *p && *p != 'e' && *p != 'E'; ++p) if (*p >= '0' && *p <= '9') ++digits;
  if (digits >= 16) { if (distinct.insert(bits(x)).second) ++n_nontrivial; if (n_samples < 4) samples[n_samples++] = buf; }
  if (*end != '\0') { *why = std::string("pdtoa output not fully numeric: ") + buf; return false; }
  if (bits(back) != bits(x)) {
    char m[200]; snprintf(m, sizeof m, "pdtoa(%a)=\"%s\" parses back to %a (bits %016llx vs %016llx)", x, buf, back,
                          (unsigned long long)bits(x), (unsigned long long)bits(back));
    *why = m; return false;
  }
  return true;
}

static bool check_parse(const std::string &s, std::string *why) {
  char *e1 = nullptr, *e2 = nullptr;
  double want = strtod_c(s.c_str(), &e1);
  double got = pstrtod(s.c_str(), &e2);
  ++n_eval;
  size_t nd = 0; for (char c : s) if (c >= '0' && c <= '9') ++nd;
  if (nd >= 16 || s.find('e') != std::string::npos || s.find('E') != std::string::npos) {
    if (distinct.insert(std::hash<std::string>()(s)).second) ++n_nontrivial;
    if (n_samples < 4) samples[n_samples++] = s;
  }
  if (bits(want) != bits(got)) {
    char m[300]; snprintf(m, sizeof m, "pstrtod(\"%s\")=%a (%.17g) but correctly rounded value is %a (%.17g)%s", s.c_str(), got, got, want, want,
                          comma_locale_active ? " [under xx_COMMA]" : "");
    *why = m; return false;
  }
  if (e1 - s.c_str() != e2 - s.c_str()) {
    char m[300]; snprintf(m, sizeof m, "pstrtod(\"%s\") consumed %ld chars, strtod %ld", s.c_str(), (long)(e2 - s.c_str()), (long)(e1 - s.c_str()));
    *why = m; return false;
  }
  return true;
}

static void stats() {
  printf("STAT evaluations %ld\nSTAT nontrivial %ld\n", n_eval, n_nontrivial);
  for (int i = 0; i < n_samples; ++i) printf("SAMPLE %s\n", samples[i].c_str());
  fflush(stdout);
}

static rc::Gen<uint64_t> any64() { return rc::gen::resize(1000, rc::gen::arbitrary<uint64_t>()); }

static double gen_double() {
  int kind = *rc::gen::resize(1000, rc::gen::inRange(0, 10));
  uint64_t r = *any64();
  uint64_t r2 = *any64();
  switch (kind) {
  case 0: {  // any exponent, random mantissa
    uint64_t e = r % 2047, m = r2 & ((1ull << 52) - 1);
    return from_bits(((r >> 63) << 63) | (e << 52) | m); }
  case 1:    // subnormals
    return from_bits(((r >> 63) << 63) | (r2 & ((1ull << 52) - 1)));
  case 2: {  // powers of two +- few ulp
    uint64_t e = r % 2047; int64_t d = (int64_t)(r2 % 7) - 3;
    return from_bits((e << 52) + d); }
  case 3: {  // powers of ten +- few ulp
    int p = (int)(r % 617) - 308; double v = strtod_c((std::string("1e") + std::to_string(p)).c_str(), nullptr);
    return from_bits(bits(v) + (int64_t)(r2 % 7) - 3); }
  case 4: {  // short decimals d.ddd
    double v = (double)(r % 100000) / 1000.0; return (r2 & 1) ? -v : v; }
  case 5:    // integers
    return (double)(int64_t)(r >> (r2 % 64));
  case 6: {  // float32 values widened
    uint32_t u = (uint32_t)r; float f; memcpy(&f, &u, 4); if (std::isnan(f) || std::isinf(f)) f = 1.5f; return (double)f; }
  case 7: {  // near DBL_MAX / DBL_MIN
    static const uint64_t edge[] = {0x7fefffffffffffffull, 0x0010000000000000ull, 0x000fffffffffffffull, 1ull, 0x7fe0000000000000ull};
    return from_bits(edge[r % 5] - (r2 % 3)); }
  default: { // n/10^k
    int k = (int)(r % 18); double v = (double)(r2 % 1000000007ull); for (int i = 0; i < k; ++i) v /= 10.0; return v; }
  }
}

static std::string gen_spelling() {
  auto digit_run = [](int maxn, bool allow_empty) {
    int n = *rc::gen::resize(1000, rc::gen::inRange(allow_empty ? 0 : 1, maxn + 1));
    std::string s;
    for (int i = 0; i < n; ++i) s += (char)('0' + *rc::gen::resize(1000, rc::gen::inRange(0, 10)));
    return s;
  };
  int shape = *rc::gen::resize(1000, rc::gen::inRange(0, 8));
  std::string s;
  switch (shape) {
  case 0: s = digit_run(20, false) + "." + digit_run(20, true); break;
  case 1: s = "." + digit_run(25, false); break;
  case 2: s = digit_run(3, false) + "." + digit_run(40, true); break;
  case 3: s = digit_run(40, false) + "."; break;
  case 4: s = "0." + std::string(*rc::gen::resize(1000, rc::gen::inRange(0, 30)), '0') + digit_run(18, false); break;
  case 5: s = digit_run(17, false); break;            // integer digits then exponent
  case 6: s = std::string(*rc::gen::resize(1000, rc::gen::inRange(0, 4)), '0') + digit_run(6, false) + "." + digit_run(6, true) +
              std::string(*rc::gen::resize(1000, rc::gen::inRange(0, 4)), '0'); break;
  default: s = digit_run(1, false) + "." + digit_run(17, false); break;
  }
  int ek = *rc::gen::resize(1000, rc::gen::inRange(0, 4));
  if (shape == 5 || ek != 0) {
    int e = *rc::gen::resize(1000, rc::gen::inRange(-330, 331));
    if (ek == 3) e = *rc::gen::resize(1000, rc::gen::inRange(-30, 31));
    s += (*rc::gen::resize(1000, rc::gen::inRange(0, 2)) ? "e" : "E");
    if (e < 0) s += "-" + std::to_string(-e);
    else s += (*rc::gen::resize(1000, rc::gen::inRange(0, 2)) ? "+" : "") + std::to_string(e);
  }
  return s;
}

int main(int argc, char **argv) {
  c_loc = newlocale(LC_ALL_MASK, "C", (locale_t)0);
  std::string mode = argc > 1 ? argv[1] : "fmt";
  const char *want_loc = getenv("RC_NUM_LOCALE");
  if (want_loc && *want_loc) {
    if (!setlocale(LC_ALL, "")) { fprintf(stderr, "cannot set locale from environment\n"); return 2; }
    char buf[32]; snprintf(buf, sizeof buf, "%.1f", 1.5);
    if (strcmp(buf, "1,5") != 0) { fprintf(stderr, "comma locale not active (%s)\n", buf); return 2; }
    comma_locale_active = true;
    printf("STAT comma_locale 1\n");
  }
  std::string why;
  if (mode == "one-fmt") {
    bool ok = check_fmt(from_bits(strtoull(argv[2], nullptr, 16)), &why);
    if (!ok) printf("FAIL %s\n", why.c_str());
    return ok ? 0 : 1;
  }
  if (mode == "one-parse") {
    bool ok = check_parse(argv[2], &why);
    if (!ok) printf("FAIL %s\n", why.c_str());
    return ok ? 0 : 1;
  }
  if (mode == "f32") {
    uint64_t a = strtoull(argv[2], nullptr, 0), b = strtoull(argv[3], nullptr, 0);
    for (uint64_t u = a; u < b; ++u) {
      uint32_t v = (uint32_t)u; float f; memcpy(&f, &v, 4);
      if (std::isnan(f) || std::isinf(f)) continue;
      if (!check_fmt((double)f, &why)) { printf("FAIL %s\nCASE fmt %016llx\n", why.c_str(), (unsigned long long)bits((double)f)); stats(); return 1; }
    }
    distinct.clear();
    stats();
    return 0;
  }
  bool ok;
  if (mode == "fmt") {
    ok = rc::check("pdtoa round-trips through correctly rounded strtod", [] {
      double x = gen_double();
      if (std::isnan(x) || std::isinf(x)) x = 0.1;
      std::string w;
      bool r = check_fmt(x, &w);
      if (!r) { printf("FAIL %s\nCASE fmt %016llx\n", w.c_str(), (unsigned long long)bits(x)); fflush(stdout); }
      RC_ASSERT(r);
    });
  } else {
    ok = rc::check("pstrtod agrees with correctly rounded strtod", [] {
      std::string s = gen_spelling();
      std::string w;
      bool r = check_parse(s, &w);
      if (!r) { printf("FAIL %s\nCASE parse %s\n", w.c_str(), s.c_str()); fflush(stdout); }
      RC_ASSERT(r);
    });
  }
  stats();
  return ok ? 0 : 1;
}
