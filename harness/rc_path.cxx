// C17 (b): Filename::standardize / make_canonical -- idempotence and "never changes which file a path denotes".
//   rc_path enum <maxlen>   exhaustive enumeration of all path strings over the component alphabet up to maxlen components
//   rc_path random          rapidcheck: longer random paths (RC_PARAMS)
//   rc_path one <path>      replay one path (relative to the fixture tree); exit 1 if it fails
// A fixture tree is created under /dev/shm: dirs a, a/b, b; files f, a/f, a/b/f, b/f; symlinks ls -> a, lf -> a/f.
#include <rapidcheck.h>
#include <cstdio>
#include <cstdlib>
#include <cstring>
#include <string>
#include <vector>
#include <sys/stat.h>
#include <sys/types.h>
#include <sys/wait.h>
#include <unistd.h>
#include "filename.h"

static const char *COMPS[] = {"a", "b", "f", "ls", "lf", ".", "..", ""};
static const int NCOMPS = 8;
static long n_eval = 0, n_nontrivial = 0;
static std::string root;

static bool has_symlink_comp(const std::string &p) {
  return p.find("ls") != std::string::npos || p.find("lf") != std::string::npos;
}
static bool same_file(const std::string &a, const std::string &b, bool *a_ok) {
  struct stat sa, sb;
  *a_ok = (stat(a.c_str(), &sa) == 0);
  if (!*a_ok) return true;
  if (stat(b.c_str(), &sb) != 0) return false;
  return sa.st_dev == sb.st_dev && sa.st_ino == sb.st_ino;
}

// returns empty string if fine, else a description
static std::string check_path(const std::string &p) {
  ++n_eval;
  if (p.empty()) return "";
  // every library call runs in a forked child: an assertion failure is an observation, not the end of the run
  int fds[2];
  if (pipe(fds) != 0) return "pipe failed";
  pid_t pid = fork();
  if (pid == 0) {
    close(fds[0]);
    std::string msg;
    Filename fn(p);
    fn.standardize();
    std::string s1 = fn.get_fullpath();
    if (s1.empty()) {
      msg = "standardize(\"" + p + "\") yields the empty filename";
    } else {
      Filename fn2(s1);
      fn2.standardize();
      if (fn2.get_fullpath() != s1) msg = "standardize is not idempotent: \"" + p + "\" -> \"" + s1 + "\" -> \"" + fn2.get_fullpath() + "\"";
      bool ok;
      if (msg.empty() && !has_symlink_comp(p) && !same_file(p, s1, &ok))
        msg = "standardize changes the file denoted: \"" + p + "\" exists, \"" + s1 + "\" is a different file or missing";
    }
    if (msg.empty()) {
      Filename c(p);
      struct stat sp;
      // make_canonical is judged only on paths that denote an existing file (for others there is nothing it could preserve)
      if (stat(p.c_str(), &sp) == 0 && c.make_canonical()) {
        std::string c1 = c.get_fullpath();
        Filename c2(c1);
        if (!c2.make_canonical() || c2.get_fullpath() != c1)
          msg = "make_canonical is not idempotent: \"" + p + "\" -> \"" + c1 + "\" -> \"" + c2.get_fullpath() + "\"";
        bool ok;
        if (msg.empty() && !same_file(p, c1, &ok))
          msg = "make_canonical changes the file denoted: \"" + p + "\" vs \"" + c1 + "\"";
      }
    }
    if (!msg.empty()) { ssize_t r = write(fds[1], msg.c_str(), msg.size()); (void)r; }
    _exit(0);
  }
  close(fds[1]);
  char buf[1024]; std::string out; ssize_t n;
  while ((n = read(fds[0], buf, sizeof buf)) > 0) out.append(buf, n);
  close(fds[0]);
  int st = 0; waitpid(pid, &st, 0);
  if (!WIFEXITED(st) || WEXITSTATUS(st) != 0) {
    char m[200]; snprintf(m, sizeof m, "the library call dies (%s %d) for path \"%s\"", WIFSIGNALED(st) ? "signal" : "exit", WIFSIGNALED(st) ? WTERMSIG(st) : WEXITSTATUS(st), p.c_str());
    return m;
  }
  if (p.find("..") != std::string::npos && p.find("/..") != 0) ++n_nontrivial;
  return out;
}

static void make_tree() {
  char tmpl[] = "/dev/shm/vfpath-XXXXXX";
  if (!mkdtemp(tmpl)) { perror("mkdtemp"); exit(2); }
  root = tmpl;
  if (chdir(root.c_str()) != 0) exit(2);
  mkdir("a", 0755); mkdir("a/b", 0755); mkdir("b", 0755);
  const char *files[] = {"f", "a/f", "a/b/f", "b/f"};
  for (const char *f : files) { FILE *h = fopen(f, "w"); if (h) { fputs(f, h); fclose(h); } }
  if (symlink("a", "ls") != 0 || symlink("a/f", "lf") != 0) { perror("symlink"); exit(2); }
}
static void rm_tree() {
  if (chdir("/") != 0) return;
  std::string cmd = "rm -rf " + root;
  if (root.compare(0, 16, "/dev/shm/vfpath-") == 0) { int r = system(cmd.c_str()); (void)r; }
}

static std::string join(const std::vector<int> &c, bool absolute) {
  std::string p = absolute ? root + "/" : "";
  for (size_t i = 0; i < c.size(); ++i) { if (i) p += "/"; p += COMPS[c[i]]; }
  return p;
}

int main(int argc, char **argv) {
  std::string mode = argc > 1 ? argv[1] : "enum";
  make_tree();
  int rc = 0;
  if (mode == "one") {
    std::string arg = argv[2];
    if (arg.compare(0, 4, "ABS:") == 0) arg = root + "/" + arg.substr(4);
    std::string r = check_path(arg);
    if (!r.empty()) { printf("FAIL %s\n", r.c_str()); rc = 1; }
  } else if (mode == "enum") {
    int maxlen = argc > 2 ? atoi(argv[2]) : 4;
    for (int len = 1; len <= maxlen && rc == 0; ++len) {
      std::vector<int> c(len, 0);
      while (true) {
        for (int abs = 0; abs < 2; ++abs) {
          std::string p = join(c, abs);
          std::string r = check_path(p);
          if (!r.empty()) {
            std::string rel = join(c, false);
            printf("FAIL %s\nCASE %s%s\n", r.c_str(), abs ? "ABS:" : "", rel.c_str());
            rc = 1; goto done;
          }
        }
        int i = len - 1;
        while (i >= 0 && ++c[i] == NCOMPS) { c[i] = 0; --i; }
        if (i < 0) break;
      }
    }
  } else {
    bool ok = rc::check("Filename normalisation", [] {
      int len = *rc::gen::resize(1000, rc::gen::inRange(5, 11));
      std::vector<int> c;
      for (int i = 0; i < len; ++i) c.push_back(*rc::gen::resize(1000, rc::gen::inRange(0, NCOMPS)));
      bool abs = *rc::gen::resize(1000, rc::gen::inRange(0, 2)) == 1;
      std::string p = join(c, abs);
      std::string r = check_path(p);
      if (!r.empty()) { printf("FAIL %s\nCASE %s%s\n", r.c_str(), abs ? "ABS:" : "", join(c, false).c_str()); fflush(stdout); }
      RC_ASSERT(r.empty());
    });
    rc = ok ? 0 : 1;
  }
done:
  printf("STAT evaluations %ld\nSTAT nontrivial %ld\n", n_eval, n_nontrivial);
  rm_tree();
  return rc;
}
