"""Client for the -python-native back-end: runs a JSON plan against the imported extension module like a Python user would
(attribute access by name, calls with Python values, dropping references) and prints RET/ERR/OBJ lines."""
import ctypes
import gc
import importlib
import json
import os
import struct
import sys


def resolve(mod, path):
    o = mod
    for p in path:
        o = getattr(o, p)
    return o


def main():
    plan = json.load(open(sys.argv[1]))
    sys.path.insert(0, os.path.dirname(plan["so"]))
    mod = importlib.import_module(plan["module"])
    lib = ctypes.CDLL(plan["so"], mode=os.RTLD_NOW | os.RTLD_GLOBAL)
    lib.vf_live_count.restype = ctypes.c_int
    lib.vf_mark.argtypes = [ctypes.c_char_p]
    slots = {}
    results = {}

    def desc(cls_id, ptr):
        f = getattr(lib, "vf_desc_K%d" % cls_id)
        f.restype = ctypes.c_char_p
        f.argtypes = [ctypes.c_void_p]
        return f(ptr).decode()

    def value(a):
        k = a["k"]
        if k == "v":
            return a["v"]
        if k == "float":
            return float.fromhex(a["hex"])
        if k == "str":
            return bytes.fromhex(a["hex"]).decode("utf-8")
        if k == "slot":
            return slots[a["slot"]]
        if k == "attr":
            return resolve(mod, a["path"])
        if k == "object":
            return object()
        if k == "none":
            return None
        if k == "bytes":
            return bytes.fromhex(a["hex"])
        raise SystemExit("bad arg %r" % (a,))

    def fmt(code, v, i):
        if code == "void":
            return "void" if v is None else "void!=%s" % type(v).__name__
        if code == "b":
            return "b:%d" % (1 if v else 0) if isinstance(v, bool) else "b:?%s" % type(v).__name__
        if code == "f32":
            return "f32:" + struct.pack("<f", v).hex()
        if code == "f64":
            return "f64:" + struct.pack("<d", v).hex()
        if code in ("i8", "u8", "i16", "u16", "i32", "u32", "i64", "u64"):
            if isinstance(v, str) and len(v) == 1:
                v = ord(v)
            if isinstance(v, bool) or not isinstance(v, int):
                return "%s:?%s" % (code, type(v).__name__)
            return "%s:%d" % (code, v)
        if code == "e":
            return "e:%d" % (v.value if hasattr(v, "value") else int(v))
        if code == "s":
            if v is None:
                return "nil"
            return "s:" + (v.encode("utf-8") if isinstance(v, str) else bytes(v)).hex()
        if code.startswith("o:"):
            if v is None:
                return "nil"
            cid = int(code[2:])
            print("OBJ %d type=%s const=%d owns=%d" % (i, type(v).__name__, 1 if v.this_const else 0, 1 if v.this_ownership else 0), flush=True)
            return desc(cid, v.this)
        if code.startswith("seq:"):
            return "seq:" + ",".join(fmt(code[4:], x, i) for x in v)
        raise SystemExit("bad code %r" % code)

    for i, st in enumerate(plan["steps"]):
        lib.vf_mark(("STEP %d" % i).encode())
        op = st["op"]
        try:
            if op == "drop":
                slots.pop(st["slot"], None)
                results.pop(st["slot"], None)
                gc.collect()
                print("RET %d void" % i, flush=True)
                continue
            if op == "dropresult":
                results.pop(st["step"], None)
                gc.collect()
                print("RET %d void" % i, flush=True)
                continue
            if op == "has":
                o = slots[st["on"]] if "on" in st else resolve(mod, st["path"][:-1])
                name = st["path"][-1] if "path" in st else st["name"]
                print("RET %d has:%d" % (i, 1 if hasattr(o, name) else 0), flush=True)
                continue
            args = [value(a) for a in st.get("args", [])]
            kwargs = {k: value(a) for k, a in st.get("kwargs", {}).items()}
            if op == "new":
                r = resolve(mod, st["path"])(*args, **kwargs)
                slots[st["bind"]] = r
            elif op == "call":
                r = getattr(slots[st["on"]], st["name"])(*args, **kwargs)
            elif op == "pcall":
                r = resolve(mod, st["path"])(*args, **kwargs)
            elif op == "get":
                r = getattr(slots[st["on"]], st["name"])
            elif op == "set":
                setattr(slots[st["on"]], st["name"], args[0])
                r = None
            elif op == "binop":
                import operator
                r = getattr(operator, st["name"])(slots[st["on"]], *args)
            else:
                raise SystemExit("bad op %r" % op)
            if st.get("expect_error"):
                print("RET %d no-error:%s" % (i, type(r).__name__), flush=True)
                continue
            if st.get("keep"):
                results[i] = r
            if st.get("bind_result") is not None and r is not None:
                slots[st["bind_result"]] = r
            print("RET %d %s" % (i, fmt(st["ret"], r, i)), flush=True)
        except (TypeError, OverflowError, ValueError, AttributeError, KeyError, IndexError, AssertionError) as e:
            print("ERR %d %s %s" % (i, type(e).__name__, str(e).replace("\n", " ")[:160]), flush=True)
        r = args = kwargs = o = None
    lib.vf_mark(b"STEP end")
    slots.clear()
    results.clear()
    r = args = kwargs = o = None
    gc.collect()
    print("LIVE %d" % lib.vf_live_count(), flush=True)
    print("DONE", flush=True)


if __name__ == "__main__":
    main()
