"""Helpers to run interrogate / interrogate_module / parse_file and compile their output."""
import os
import sysconfig

from . import build, idbfmt, run

SHIMS = os.path.join(build.VERIF, "shims")
SYS = os.path.join(SHIMS, "sys")
PRELUDE_INC = '#include <verif_prelude.h>\n'
PYINC = sysconfig.get_paths()["include"]


def std_args(cplusplus="201703L"):
    a = ["-DCPPPARSER", "-S" + run.PARSER_INC, "-S" + SYS]
    if cplusplus:
        a.insert(1, "-D__cplusplus=" + cplusplus)
    return a


def interrogate(cwd, headers, opts=(), module="m", library="l", oc="l_igate.cxx", od="l.in", oh=None,
                variant="std", timeout=60, env=None, extra_search=(), cplusplus="201703L"):
    argv = [build.tool("interrogate", variant)]
    if oc:
        argv += ["-oc", oc]
    if od:
        argv += ["-od", od]
    if oh:
        argv += ["-oh", oh]
    argv += ["-module", module, "-library", library]
    argv += list(opts) + std_args(cplusplus) + list(extra_search) + list(headers)
    e = run.base_env({"SOURCE_DATE_EPOCH": "1700000000"})
    if env:
        e.update(env)
    return run.run(argv, cwd=cwd, timeout=timeout, env=e, asan=(variant != "std"))


def interrogate_module(cwd, ins, opts=("-python-native",), module="m", library="m", oc="m_module.cxx",
                       variant="std", timeout=60, env=None):
    argv = [build.tool("interrogate_module", variant), "-oc", oc, "-module", module, "-library", library]
    argv += list(opts) + list(ins)
    e = run.base_env()
    if env:
        e.update(env)
    return run.run(argv, cwd=cwd, timeout=timeout, env=e, asan=(variant != "std"))


def parse_file(cwd, files, opts=(), variant="std", timeout=30, env=None, std=True, cplusplus="201703L"):
    argv = [build.tool("parse_file", variant)] + list(opts)
    if std:
        argv += std_args(cplusplus)
    argv += list(files)
    e = run.base_env()
    if env:
        e.update(env)
    return run.run(argv, cwd=cwd, timeout=timeout, env=e, asan=(variant != "std"))


def load_db(path):
    with open(path, "rb") as f:
        return idbfmt.parse(f.read())


def gxx(cwd, args, timeout=180, compiler="g++"):
    return run.run([compiler, "-std=gnu++17", "-w"] + list(args), cwd=cwd, timeout=timeout, mem_mb=0,
                   env=run.base_env())


def compile_flags(python=False):
    inc = ["-I", SHIMS, "-I", SYS, "-I", os.path.join(build.REPO, "src", "dtoolbase"),
           "-I", os.path.join(build.REPO, "src", "interrogatedb"), "-I", "."]
    if python:
        inc += ["-DHAVE_PYTHON", "-I", PYINC]
    return inc
