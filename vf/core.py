"""Check driver: regression replays, parallel Hypothesis search, known findings,
3x replay before VIOLATION, evidence writing."""
import collections
import hashlib
import json
import multiprocessing
import os
import shutil
import sys
import time
import traceback

from . import build

VERIF = build.VERIF
EVID_DIR = os.path.join(VERIF, "evidence")
REPLAY_OUT = os.path.join(EVID_DIR, "replays")
REPLAYS = os.path.join(VERIF, "replays")
KNOWN_FILE = os.path.join(VERIF, "known_findings.json")
NCPU = os.cpu_count() or 8


class Broken(Exception):
    """the check itself is broken (harness self-check failed) -- exit 2, never VIOLATION"""


class Outcome:
    """Result of judging one case.
    ok        property held on this case
    key       root-cause signature of a failure (compared with known findings)
    detail    human text
    nontrivial  iterable of hashable keys: each distinct key counts one distinct non-trivial case
    classes   iterable of feature labels for the generator-health histogram
    discard   the case is outside the property's domain (e.g. rejected by the reference compiler)
    """
    __slots__ = ("ok", "key", "detail", "nontrivial", "classes", "discard", "sample")

    def __init__(self, ok=True, key=None, detail="", nontrivial=(), classes=(), discard=False, sample=None):
        self.ok, self.key, self.detail = ok, key, detail
        self.nontrivial, self.classes, self.discard, self.sample = list(nontrivial), list(classes), discard, sample


def load_known():
    try:
        with open(KNOWN_FILE) as f:
            return json.load(f)
    except FileNotFoundError:
        return []


def known_for(pid):
    return [k for k in load_known() if k.get("property") == pid]


def short_hash(obj):
    return hashlib.sha256(json.dumps(obj, sort_keys=True, default=str).encode()).hexdigest()[:12]


class Stats:
    def __init__(self):
        self.evaluations = 0
        self.discarded = 0
        self.nontrivial = set()
        self.classes = collections.Counter()
        self.excluded = collections.Counter()
        self.samples = []
        self.extra = {}

    def to_dict(self):
        return dict(evaluations=self.evaluations, discarded=self.discarded, nontrivial=sorted(self.nontrivial),
                    classes=dict(self.classes), excluded=dict(self.excluded), samples=self.samples, extra=self.extra)

    def merge(self, d):
        self.evaluations += d["evaluations"]
        self.discarded += d["discarded"]
        self.nontrivial.update(d["nontrivial"])
        self.classes.update(d["classes"])
        self.excluded.update(d["excluded"])
        for s in d["samples"]:
            if len(self.samples) < 6:
                self.samples.append(s)
        for k, v in d.get("extra", {}).items():
            if isinstance(v, bool):
                self.extra[k] = bool(self.extra.get(k, False) or v)
            elif isinstance(v, (int, float)) and ("max" in k or "bound" in k):
                self.extra[k] = max(self.extra.get(k, v), v)
            elif isinstance(v, (int, float)):
                self.extra[k] = self.extra.get(k, 0) + v
            elif isinstance(v, list):
                self.extra.setdefault(k, [])
                self.extra[k] = (self.extra[k] + v)[:20]
            else:
                self.extra[k] = v


class Ctx:
    def __init__(self, pid, tier, seed):
        self.pid, self.tier, self.seed = pid, tier, seed
        self.known = [k for k in known_for(pid) if k.get("status") == "known"]
        self.known_keys = set()
        for k in self.known:
            for kk in k.get("keys", [k.get("key")] if k.get("key") else []):
                self.known_keys.add(kk)
        self.disabled_tags = set()
        for k in self.known:
            self.disabled_tags.update(k.get("disable_tags", []))

    @property
    def thorough(self):
        return self.tier == "thorough"

    def pick(self, quick, thorough):
        return thorough if self.thorough else quick


def account(stats, out, ctx, case=None):
    """Apply one outcome to stats.  Returns True if it is an (unknown) failure."""
    stats.evaluations += 1
    if out.discard:
        stats.discarded += 1
        return False
    for c in out.classes:
        stats.classes[c] += 1
    if not out.ok and out.key is not None and out.key in ctx.known_keys:
        stats.excluded[out.key] += 1
        return False
    for k in out.nontrivial:
        stats.nontrivial.add(k if isinstance(k, str) else short_hash(k))
    if out.ok and len(stats.samples) < 4 and (out.sample is not None or case is not None) and out.nontrivial:
        stats.samples.append(out.sample if out.sample is not None else case)
    return not out.ok


def hypothesis_search(prop, ctx, strategy, judge, max_examples, seed, stats, time_budget=None):
    """Run a Hypothesis search; returns None or dict(case, detail, key) for the shrunk failure."""
    import hypothesis
    from hypothesis import HealthCheck, Phase, given, settings

    last = {}
    t_end = time.time() + time_budget if time_budget else None

    class _Fail(Exception):
        pass

    @hypothesis.seed(seed)
    @settings(max_examples=max_examples, database=None, deadline=None, report_multiple_bugs=False,
              derandomize=False, print_blob=False, verbosity=hypothesis.Verbosity.quiet,
              suppress_health_check=list(HealthCheck),
              phases=[Phase.explicit, Phase.generate, Phase.shrink])
    @given(strategy)
    def test(case):
        if t_end and time.time() > t_end and not last:
            return           # budget exhausted: stop judging (inconclusive beyond this point)
        out = judge(case, ctx)
        if account(stats, out, ctx, case):
            last["case"], last["detail"], last["key"] = case, out.detail, out.key
            raise _Fail(out.detail)

    try:
        test()
    except _Fail:
        return dict(case=last["case"], detail=last["detail"], key=last["key"])
    except hypothesis.errors.Flaky as e:  # a judge that is not a pure function of the case
        return dict(case=last.get("case"), detail="FLAKY: " + str(e), key="flaky", flaky=True)
    return None


def _worker(args):
    modname, tier, seed, widx, stage = args
    try:
        import importlib
        mod = importlib.import_module(modname)
        ctx = Ctx(mod.ID, tier, seed)
        stats = Stats()
        fails = mod.worker(ctx, widx, stage, stats) or []
        return dict(stats=stats.to_dict(), failures=fails, error=None)
    except Broken as e:
        return dict(stats=Stats().to_dict(), failures=[], error="BROKEN: %s" % e)
    except Exception:
        return dict(stats=Stats().to_dict(), failures=[], error=traceback.format_exc())


def run_workers(mod, ctx, stages):
    """stages: list of (stage_name, n_workers).  Each worker gets its own seed."""
    jobs = []
    for stage, n in stages:
        for i in range(n):
            jobs.append((mod.__name__, ctx.tier, ctx.seed, i, stage))
    with multiprocessing.get_context("fork").Pool(min(NCPU, len(jobs))) as pool:
        return pool.map(_worker, jobs, chunksize=1)


def write_evidence(pid, level, tier, seed, stats, rule, wall, violations, assumptions, extra=None):
    os.makedirs(EVID_DIR, exist_ok=True)
    cov = dict(evaluations=stats.evaluations, distinct_nontrivial=len(stats.nontrivial), rule=rule,
               samples=stats.samples[:6], classes=dict(sorted(stats.classes.items())),
               discarded=stats.discarded, excluded_by_known_finding=dict(stats.excluded))
    cov.update(stats.extra)
    if extra:
        cov.update(extra)
    ev = dict(property_id=pid, tier=tier, seed=seed, level=level, coverage=cov, assumptions=assumptions,
              wall_s=round(wall, 2), violations=violations)
    try:
        import jsonschema
        with open("/root/.vp/EVIDENCE.schema.json") as f:
            jsonschema.validate(ev, json.load(f))
    except FileNotFoundError:
        pass
    except Exception as e:      # e.g. a run that failed at once has no non-trivial passing case: written as it is
        print("note: evidence does not satisfy the schema (%s)" % str(e).split("\n")[0], file=sys.stderr)
    tmp = os.path.join(EVID_DIR, pid + ".json.tmp")
    with open(tmp, "w") as f:
        json.dump(ev, f, indent=1, sort_keys=True, default=str)
    os.replace(tmp, os.path.join(EVID_DIR, pid + ".json"))
    return ev


def materialise(pid, failure):
    """Write a replay directory for a failure; returns its path."""
    h = short_hash(failure["case"])
    d = os.path.join(REPLAY_OUT, "%s-%s" % (pid, h))
    shutil.rmtree(d, ignore_errors=True)
    os.makedirs(d)
    with open(os.path.join(d, "case.json"), "w") as f:
        json.dump(dict(property=pid, case=failure["case"], detail=failure.get("detail"), key=failure.get("key")),
                  f, indent=1, sort_keys=True, default=str)
    with open(os.path.join(d, "cmd.sh"), "w") as f:
        f.write("#!/bin/sh\ncd /verif && exec ./check %s --replay %s\n" % (pid, d))
    return d


def replay_case(mod, ctx, path):
    """Judge the case stored at path (dir or case.json).  Returns Outcome."""
    p = path if path.endswith(".json") else os.path.join(path, "case.json")
    with open(p) as f:
        rec = json.load(f)
    return mod.judge(rec["case"], ctx)


def main_check(mod, tier, seed, replay=None):
    pid = mod.ID
    t0 = time.time()
    ctx = Ctx(pid, tier, seed)
    if replay:
        ctx.known_keys = set()
        ctx.disabled_tags = set()
        out = replay_case(mod, ctx, replay)
        if out.ok or out.discard:
            print("replay %s: property held (%s)" % (replay, out.detail or "ok"))
            return 0
        print("replay %s: FAILS: %s" % (replay, out.detail))
        print("VIOLATION property=%s replay=%s" % (pid, replay))
        return 1

    violations = []
    stats = Stats()
    # ---- regression tier: committed replays (fixed and known) ---------------------------
    reg = 0
    known_all = known_for(pid)
    by_replay = {k.get("replay"): k for k in known_all if k.get("replay")}
    if os.path.isdir(REPLAYS):
        for name in sorted(os.listdir(REPLAYS)):
            if not name.startswith(pid + "-"):
                continue
            rp = os.path.join(REPLAYS, name)
            rel = "replays/" + name
            nctx = Ctx(pid, tier, seed)
            nctx.known_keys = set()
            nctx.disabled_tags = set()
            out = replay_case(mod, nctx, rp)
            reg += 1
            ent = by_replay.get(rel)
            if out.ok or out.discard:
                continue
            if ent is not None and ent.get("status") == "known":
                print("KNOWN-FINDING: property=%s %s" % (pid, ent.get("what", name)))
                stats.extra.setdefault("known_findings_replayed", [])
                stats.extra["known_findings_replayed"].append(name)
            else:
                # fixed entry (or unlisted committed replay) that fails again: regression
                violations.append((rp, "regression replay fails: " + out.detail))
    stats.extra["regression_replays"] = reg

    # ---- generated search ----------------------------------------------------------------
    results = run_workers(mod, ctx, mod.stages(ctx))
    errors = [r["error"] for r in results if r["error"]]
    failures = []
    for r in results:
        stats.merge(r["stats"])
        failures.extend(r["failures"])
    if errors:
        for e in errors[:3]:
            print("CHECK-BROKEN %s: %s" % (pid, e), file=sys.stderr)
        print("check %s is broken (harness error), no verdict" % pid)
        return 2

    seen = set()
    flaky = []
    for fl in failures:
        sig = fl.get("key") or short_hash(fl["case"])
        if sig in seen:
            continue
        seen.add(sig)
        if fl.get("flaky"):
            flaky.append(fl)
            continue
        d = materialise(pid, fl)
        nctx = Ctx(pid, tier, seed)
        nctx.known_keys = set()
        n_fail = 0
        for _ in range(3):
            out = replay_case(mod, nctx, d)
            if not out.ok and not out.discard:
                n_fail += 1
        if n_fail == 3:
            violations.append((d, fl.get("detail", "")))
        else:
            flaky.append(fl)
    if flaky:
        stats.extra["flaky_candidates"] = [dict(detail=str(f.get("detail"))[:300]) for f in flaky[:5]]

    if not stats.samples:
        stats.samples = [{"failing_case": str(d)[:300], "detail": str(t)[:300]} for d, t in violations[:3]] or \
                        [{"note": "no passing non-trivial case was recorded in this run"}]
    floor = getattr(mod, "NONTRIVIAL_FLOOR", 2)
    wall = time.time() - t0
    write_evidence(pid, mod.LEVEL, tier, seed, stats, mod.RULE, wall, len(violations), mod.ASSUMPTIONS)
    for d, detail in violations:
        print("  failure: %s" % (detail[:600],))
        print("VIOLATION property=%s replay=%s" % (pid, d))
    if violations:
        return 1
    if len(stats.nontrivial) < floor:
        print("check %s vacuous: only %d distinct non-trivial cases (floor %d)" % (pid, len(stats.nontrivial), floor))
        return 2
    print("%s %s: held on %d evaluations (%d distinct non-trivial, %d discarded, excluded=%s) in %.0fs" % (
        pid, tier, stats.evaluations, len(stats.nontrivial), stats.discarded, dict(stats.excluded), wall))
    return 0
