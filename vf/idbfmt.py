"""Independent reader/writer of the interrogate database (.in) text format, minors 3.0-3.3.

Written from the format description (DESIGN.md Appendix A), not from the C++ input() code.
All strings are Python `bytes` decoded as latin-1 so that every byte value round-trips.
"""

CUR_MAJOR, CUR_MINOR = 3, 3

# type flags (interrogateType.h)
TF = dict(global_=0x000001, atomic=0x000002, unsigned=0x000004, signed=0x000008, long=0x000010,
          longlong=0x000020, short=0x000040, wrapped=0x000080, pointer=0x000100, const=0x000200,
          struct=0x000400, class_=0x000800, union=0x001000, fully_defined=0x002000,
          true_destructor=0x004000, private_destructor=0x008000, inherited_destructor=0x010000,
          implicit_destructor=0x020000, nested=0x040000, enum=0x080000, unpublished=0x100000,
          typedef=0x200000, array=0x400000, scoped_enum=0x800000)
FF = dict(global_=0x1, virtual=0x2, method=0x4, typecast=0x8, getter=0x10, setter=0x20, unary_op=0x40,
          operator_typecast=0x80, constructor=0x100, destructor=0x200, item_assignment=0x400)
WF = dict(caller_manages=0x1, has_return=0x2, callable_by_name=0x4, copy_constructor=0x8,
          coerce_constructor=0x10, extension=0x20, deprecated=0x40)
PF = dict(has_name=0x1, is_this=0x2, is_optional=0x4)
MF = dict(has_type=0x1, has_getter=0x2, has_int_value=0x4)
EF = dict(global_=0x1, has_getter=0x2, has_setter=0x4, has_has_function=0x8, has_clear_function=0x10,
          has_del_function=0x20, sequence=0x40, mapping=0x80, has_insert_function=0x100,
          has_getkey_function=0x200)
DF = dict(upcast=1, downcast=2, downcast_impossible=4)
F_ARRAY = 0x400000


class ParseError(Exception):
    pass


class Reader:
    def __init__(self, data):
        if isinstance(data, str):
            data = data.encode("latin-1")
        self.d = data
        self.p = 0

    def ws(self):
        d, p = self.d, self.p
        n = len(d)
        while p < n and d[p] in b" \t\n\r\v\f":
            p += 1
        self.p = p

    def int(self):
        self.ws()
        d, p = self.d, self.p
        s = p
        if p < len(d) and d[p] in b"+-":
            p += 1
        while p < len(d) and 48 <= d[p] <= 57:
            p += 1
        if p == s or (p == s + 1 and d[s] in b"+-"):
            raise ParseError("integer expected at %d" % s)
        self.p = p
        return int(d[s:p])

    def str(self):
        n = self.int()
        if n < 0:
            raise ParseError("negative length")
        if n == 0:
            # writer emits "0<ws>"; reader skips one byte after the length only -- for n == 0 the
            # following whitespace is consumed by the next formatted read.
            if self.p < len(self.d):
                self.p += 1
            return ""
        self.p += 1  # exactly one separator byte
        if self.p + n > len(self.d):
            raise ParseError("string overruns file")
        s = self.d[self.p:self.p + n]
        self.p += n
        return s.decode("latin-1")

    def vec_int(self):
        n = self.int()
        if n < 0:
            raise ParseError("negative vector length")
        return [self.int() for _ in range(n)]

    def at_end(self):
        self.ws()
        return self.p >= len(self.d)


def _component(r):
    name = r.str()
    n = r.int()
    alts = [r.str() for _ in range(n)]
    return dict(name=name, alt_names=alts)


def _function(r):
    c = _component(r)
    c.update(flags=r.int(), class_=r.int(), scoped_name=r.str(), c_wrappers=r.vec_int(),
             python_wrappers=r.vec_int(), comment=r.str(), prototype=r.str())
    return c


def _wrapper(r):
    c = _component(r)
    c.update(flags=r.int(), function=r.int(), return_type=r.int(), return_value_destructor=r.int(),
             unique_name=r.str(), comment=r.str())
    n = r.int()
    ps = []
    for _ in range(n):
        ps.append(dict(name=r.str(), flags=r.int(), type=r.int()))
    c["parameters"] = ps
    return c


def _type(r):
    c = _component(r)
    c.update(flags=r.int(), scoped_name=r.str(), true_name=r.str(), outer_class=r.int(),
             atomic_token=r.int(), wrapped_type=r.int())
    if c["flags"] & F_ARRAY:
        c["array_size"] = r.int()
    c["constructors"] = r.vec_int()
    c["destructor"] = r.int()
    c["elements"] = r.vec_int()
    c["methods"] = r.vec_int()
    c["make_seqs"] = r.vec_int()
    c["casts"] = r.vec_int()
    n = r.int()
    c["derivations"] = [dict(flags=r.int(), base=r.int(), upcast=r.int(), downcast=r.int()) for _ in range(n)]
    n = r.int()
    ev = []
    for _ in range(n):
        ev.append(dict(name=r.str(), scoped_name=r.str(), comment=r.str(), value=r.int()))
    c["enum_values"] = ev
    c["nested_types"] = r.vec_int()
    c["comment"] = r.str()
    return c


def _manifest(r):
    c = _component(r)
    c.update(flags=r.int(), int_value=r.int(), type=r.int(), getter=r.int(), definition=r.str())
    return c


def _element(r, minor):
    c = _component(r)
    c.update(flags=r.int(), type=r.int(), getter=r.int(), setter=r.int())
    for i, (a, b) in enumerate((("has_function", "clear_function"), ("del_function", "length_function"),
                                ("insert_function", "getkey_function")), start=1):
        if minor >= i:
            c[a] = r.int()
            c[b] = r.int()
        else:
            c[a] = 0
            c[b] = 0
    c.update(scoped_name=r.str(), comment=r.str())
    return c


def _make_seq(r):
    c = _component(r)
    c.update(length_getter=r.int(), element_getter=r.int(), scoped_name=r.str(), comment=r.str())
    return c


KINDS = ["functions", "wrappers", "types", "manifests", "elements", "make_seqs"]


def parse(data):
    r = Reader(data)
    db = dict(file_identifier=r.int(), major=r.int(), minor=r.int())
    minor = db["minor"]
    db["library_name"] = r.str()
    db["library_hash_name"] = r.str()
    db["module_name"] = r.str()
    readers = [_function, _wrapper, _type, _manifest, lambda rr: _element(rr, minor), _make_seq]
    for kind, rd in zip(KINDS, readers):
        n = r.int()
        recs = []
        for _ in range(n):
            idx = r.int()
            rec = rd(r)
            rec["index"] = idx
            recs.append(rec)
        db[kind] = recs
    return db


# ---------------------------------------------------------------------------------------------

class W:
    def __init__(self):
        self.b = []

    def raw(self, s):
        self.b.append(s)

    def int(self, v, sep=" "):
        self.b.append("%d%s" % (v, sep))

    def str(self, s, ws=" "):
        self.b.append("%d%s" % (len(s), ws))
        if s:
            self.b.append(s + ws)

    def vec(self, v):
        self.b.append("%d " % len(v))
        for x in v:
            self.b.append("%d " % x)

    def bytes(self):
        return "".join(self.b).encode("latin-1")


def _wcomp(w, c):
    w.str(c["name"])
    w.int(len(c["alt_names"]))
    for a in c["alt_names"]:
        w.str(a)


def serialise(db, minor=CUR_MINOR, major=None):
    w = W()
    w.raw("%d\n%d %d\n" % (db["file_identifier"], db.get("major", CUR_MAJOR) if major is None else major, minor))
    w.str(db["library_name"])
    w.str(db["library_hash_name"])
    w.str(db["module_name"])
    w.raw("\n")

    def section(recs, fn):
        w.raw("%d\n" % len(recs))
        for rec in recs:
            w.raw("%d " % rec["index"])
            fn(rec)
            w.raw("\n")

    def f_function(c):
        _wcomp(w, c)
        w.int(c["flags"]); w.int(c["class_"])
        w.str(c["scoped_name"]); w.vec(c["c_wrappers"]); w.vec(c["python_wrappers"])
        w.str(c["comment"], "\n"); w.str(c["prototype"], "\n")

    def f_wrapper(c):
        _wcomp(w, c)
        w.int(c["flags"]); w.int(c["function"]); w.int(c["return_type"]); w.int(c["return_value_destructor"])
        w.str(c["unique_name"]); w.str(c["comment"])
        w.raw("%d " % len(c["parameters"]))
        for p in c["parameters"]:
            w.str(p["name"]); w.int(p["flags"]); w.int(p["type"])
            w.raw(" ")

    def f_type(c):
        _wcomp(w, c)
        w.int(c["flags"]); w.str(c["scoped_name"]); w.str(c["true_name"])
        w.int(c["outer_class"]); w.int(c["atomic_token"]); w.int(c["wrapped_type"])
        if c["flags"] & F_ARRAY:
            w.int(c.get("array_size", 0))
        w.vec(c["constructors"]); w.int(c["destructor"]); w.vec(c["elements"]); w.vec(c["methods"])
        w.vec(c["make_seqs"]); w.vec(c["casts"])
        w.raw("%d " % len(c["derivations"]))
        for d in c["derivations"]:
            w.raw("%d %d %d %d " % (d["flags"], d["base"], d["upcast"], d["downcast"]))
        w.raw("%d " % len(c["enum_values"]))
        for e in c["enum_values"]:
            w.str(e["name"]); w.str(e["scoped_name"]); w.str(e["comment"], "\n")
            w.raw("%d " % e["value"])
        w.vec(c["nested_types"])
        w.str(c["comment"], "\n")

    def f_manifest(c):
        _wcomp(w, c)
        w.int(c["flags"]); w.int(c["int_value"]); w.int(c["type"]); w.int(c["getter"])
        w.str(c["definition"])

    def f_element(c):
        _wcomp(w, c)
        w.int(c["flags"]); w.int(c["type"]); w.int(c["getter"]); w.int(c["setter"])
        if minor >= 1:
            w.int(c["has_function"]); w.int(c["clear_function"])
        if minor >= 2:
            w.int(c["del_function"]); w.int(c["length_function"])
        if minor >= 3:
            w.int(c["insert_function"]); w.int(c["getkey_function"])
        w.str(c["scoped_name"]); w.str(c["comment"], "\n")

    def f_make_seq(c):
        _wcomp(w, c)
        w.int(c["length_getter"]); w.int(c["element_getter"])
        w.str(c["scoped_name"]); w.str(c["comment"], "\n")

    for kind, fn in zip(KINDS, [f_function, f_wrapper, f_type, f_manifest, f_element, f_make_seq]):
        section(db[kind], fn)
    return w.bytes()


# index-valued fields per record kind: (field path, expected kind of the referent)
INDEX_FIELDS = {
    "functions": [("class_", "types"), ("c_wrappers[]", "wrappers"), ("python_wrappers[]", "wrappers")],
    "wrappers": [("function", "functions"), ("return_type", "types"), ("return_value_destructor", "functions"),
                 ("parameters[].type", "types")],
    "types": [("outer_class", "types"), ("wrapped_type", "types"), ("constructors[]", "functions"),
              ("destructor", "functions"), ("elements[]", "elements"), ("methods[]", "functions"),
              ("make_seqs[]", "make_seqs"), ("casts[]", "functions"), ("derivations[].base", "types"),
              ("derivations[].upcast", "functions"), ("derivations[].downcast", "functions"),
              ("nested_types[]", "types")],
    "manifests": [("type", "types"), ("getter", "functions")],
    "elements": [("type", "types"), ("getter", "functions"), ("setter", "functions"),
                 ("has_function", "functions"), ("clear_function", "functions"), ("del_function", "functions"),
                 ("length_function", "functions"), ("insert_function", "functions"), ("getkey_function", "functions")],
    "make_seqs": [("length_getter", "functions"), ("element_getter", "functions")],
}


def iter_refs(kind, rec):
    """Yield (field_path, value) for every index-valued field of rec."""
    for path, target in INDEX_FIELDS[kind]:
        if "[]." in path:
            lst, fld = path.split("[].")
            for it in rec[lst]:
                yield path, target, it[fld]
        elif path.endswith("[]"):
            for v in rec[path[:-2]]:
                yield path, target, v
        else:
            yield path, target, rec[path]


def by_index(db, kind):
    return {r["index"]: r for r in db[kind]}
