"""Directive-skeleton generator for C09: conditional-inclusion programs with unique markers.

tree node:
  ["mk"]                                    a marker declaration
  ["def"] ["err"] ["warn"] ["inc"] ["undef"]   side-effect lines (interpreted relative to kept/skipped state)
  ["cond", [[spec, [nodes]], ...], else_nodes|None]
spec: {"form": if|ifdef|ifndef|elif|elifdef|elifndef, "truth": 0|1, "sp": int, "expr": cexpr AST | None}
"""
import itertools

from hypothesis import strategies as st

from . import cexpr

TRUE_IF = ["1", "defined(DEF1)", "defined DEF1", "!defined(UNDEF)", "DEF1", "!UNDEF", "DEF1 && !UNDEF", "!DEF0",
           "defined(DEFE)", "DEF1 == 1", "UNDEF == 0", "(DEF1)", "2 > 1", "true", "defined(DEF0) && !DEF0",
           "__has_include(\"exists.h\")", "!__has_include(\"missing.h\")", "__has_include(<exists.h>)",
           "ALIAS_UNDEF == 0", "!ALIAS_UNDEF", "ALIAS1", "EXPR1 == 1", "FN(UNDEF) == 1", "FN(ALIAS_UNDEF)", "ALIAS2 + 1 > 0",
           "PICK(UNDEF, DEF1)", "!ALIAS2 && ALIAS1", "defined(ALIAS_UNDEF)", "NUM7 - 7 == UNDEF",
           # 'defined NAME' without its own parentheses, inside parentheses that belong to the expression
           "(defined DEF1) && DEF1", "!(defined UNDEF)", "(defined DEF1 || defined UNDEF)", "( defined DEF1 )", "(defined DEF0)",
           "((defined(DEF1)) && (defined DEF0))", "defined DEF1 && defined DEF0", "(!defined UNDEF) && 1", "defined DEF1 ? 1 : 0",
           "(defined UNDEF ? 0 : 1)", "(1 && defined DEFE) == 1"]
FALSE_IF = ["0", "defined(UNDEF)", "defined UNDEF", "!defined(DEF1)", "DEF0", "UNDEF", "DEF1 && UNDEF", "!DEF1",
            "DEF1 == 2", "UNDEF != 0", "(DEF0)", "1 > 2", "false", "defined(UNDEF) || DEF0",
            "__has_include(\"missing.h\")", "!__has_include(\"exists.h\")", "__has_include(<missing.h>)",
            "ALIAS_UNDEF", "ALIAS1 == 0", "EXPR1 - 1", "FN(UNDEF) - 1", "ALIAS2", "PICK(DEF1, UNDEF)", "ALIAS2 - 1 > 0",
            "!defined(ALIAS2)", "NUM7 - 7 != UNDEF",
            "(defined UNDEF) || DEF0", "!(defined DEF1)", "(defined UNDEF || defined UNDEF2)", "(defined DEF1) && UNDEF", "(defined UNDEF)",
            "defined UNDEF || defined UNDEF2", "(defined DEF1 ? 0 : 1)", "(0 || defined UNDEF) == 1"]


def spell(spec, env_prefix=""):
    form, truth, sp = spec["form"], spec["truth"], spec["sp"]
    if form in ("ifdef", "elifdef"):
        return "#%s %s" % (form, ["UNDEF", "DEF1", "DEF0", "DEFE"][0 if not truth else 1 + sp % 3])
    if form in ("ifndef", "elifndef"):
        return "#%s %s" % (form, ["DEF1", "UNDEF", "DEF0", "DEFE"][1 if truth else [0, 2, 3][sp % 3]])
    e = spec.get("expr")
    if e is not None:
        try:
            e2 = cexpr.repair(e, PP_ENV)
            v, _ = cexpr.evaluate(e2, PP_ENV)
            txt = cexpr.render(e2, PP_ENV, pp=True)[0]
            if bool(v) != bool(truth):
                txt = "!(%s)" % txt
            return "#%s %s" % (form, txt)
        except cexpr.Invalid:
            pass
    pool = TRUE_IF if truth else FALSE_IF
    return "#%s %s" % (form, pool[sp % len(pool)])


class Render:
    def __init__(self, pid, off=frozenset()):
        self.pid = pid
        self.lines = []
        self.n = 0
        self.kept = []       # model: markers expected to survive
        self.tags = set()
        self.defs = []       # (name, defined_in_kept)
        self.off = off
        self.errtexts = []

    def mk(self, live):
        name = "mk_%s_%d" % (self.pid, self.n)
        self.n += 1
        self.lines.append("int %s;" % name)
        if live:
            self.kept.append(name)

    def nodes(self, nodes, live, depth):
        for nd in nodes:
            k = nd[0]
            if k == "mk":
                self.mk(live)
            elif k == "def":
                name = "S_%s_%d" % (self.pid, self.n)
                self.n += 1
                self.lines.append("#define %s 1" % name)
                self.defs.append((name, live))
                if not live:
                    self.tags.add("cond.side_effect_in_skipped")
            elif k == "undef":
                if live:
                    continue
                self.lines.append("#undef DEF1")            # only ever placed in skipped groups
                self.tags.add("cond.side_effect_in_skipped")
            elif k in ("err", "warn"):
                if live:
                    continue
                txt = "ERRTXT_%s_%d" % (self.pid, self.n)
                self.n += 1
                self.lines.append("#%s %s" % ("error" if k == "err" else "warning", txt))
                self.errtexts.append(txt)
                self.tags.add("cond.side_effect_in_skipped")
            elif k == "inc":
                if live:
                    continue
                self.lines.append('#include "nonexistent_%s_%d.h"' % (self.pid, self.n))
                self.errtexts.append("nonexistent_%s_%d.h" % (self.pid, self.n))
                self.n += 1
                self.tags.add("cond.side_effect_in_skipped")
            elif k == "cond":
                self.tags.add("cond.nest%d" % min(depth + 1, 4))
                taken = False
                if len(nd[1]) >= 3:
                    self.tags.add("cond.elif_chain")
                for spec, body in nd[1]:
                    self.tags.add("cond." + spec["form"])
                    self.lines.append(spell(spec))
                    if spec.get("expr") is not None:
                        self.tags.add("cond.arith_expr")
                    g = live and not taken and bool(spec["truth"])
                    if g:
                        taken = True
                    self.nodes(body, g, depth + 1)
                if nd[2] is not None:
                    self.tags.add("cond.else")
                    self.lines.append("#else")
                    self.nodes(nd[2], live and not taken, depth + 1)
                self.lines.append("#endif")

    def finish(self):
        # observe the macros defined inside groups through markers
        for name, live in self.defs:
            self.lines.append("#ifdef %s" % name)
            self.mk(live)
            self.lines.append("#endif")


PRELUDE = ("#define DEF1 1\n#define DEF0 0\n#define DEFE\n#define ALIAS_UNDEF UNDEF\n#define ALIAS1 DEF1\n#define ALIAS2 ALIAS_UNDEF\n"
           "#define EXPR1 (DEF1 + UNDEF)\n#define NUM7 7\n#define FN(x) ((x) + 1)\n#define PICK(a, b) b\n")
# what the macros are worth inside #if (for the cexpr generator)
PP_ENV = [("DEF1", 1, "i"), ("DEF0", 0, "i"), ("UNDEF", 0, "i"), ("ALIAS_UNDEF", 0, "i"), ("ALIAS1", 1, "i"), ("ALIAS2", 0, "i"),
          ("EXPR1", 1, "i"), ("NUM7", 7, "i"), ("FN(UNDEF)", 1, "i"), ("FN(ALIAS1)", 2, "i"), ("PICK(UNDEF, NUM7)", 7, "i"),
          ("UNDEF_OTHER", 0, "i")]


def render_program(tree, pid, off=frozenset()):
    r = Render(pid, off)
    r.nodes(tree, True, 0)
    r.finish()
    # DEF1 must still be defined after the program (an #undef in a skipped group must not act)
    r.lines.append("#ifdef DEF1")
    r.mk(True)
    r.lines.append("#endif")
    return r


# ---- Hypothesis strategy ---------------------------------------------------------------------------

def _spec(first):
    forms = ["if", "if", "ifdef", "ifndef"] if first else ["elif", "elif", "elifdef", "elifndef"]
    ex = st.one_of(st.none(), st.none(), cexpr.expressions(max_leaves=6, refs=True, casts=False, comma=False, pp=True))
    return st.builds(lambda f, t, sp, e: {"form": f, "truth": t, "sp": sp, "expr": e if f in ("if", "elif") else None},
                     st.sampled_from(forms), st.integers(0, 1), st.integers(0, 40), ex)


def trees(max_depth=5):
    leaf = st.sampled_from([["mk"], ["mk"], ["mk"], ["def"], ["err"], ["warn"], ["inc"], ["undef"]])

    def ext(children):
        body = st.lists(children, min_size=0, max_size=4)
        branch0 = st.tuples(_spec(True), body).map(list)
        branchn = st.tuples(_spec(False), body).map(list)
        return st.builds(lambda b0, bn, el: ["cond", [b0] + bn, el], branch0, st.lists(branchn, max_size=3),
                         st.one_of(st.none(), body))
    node = st.recursive(leaf, ext, max_leaves=25)
    return st.lists(node, min_size=1, max_size=6)


# ---- exhaustive small-scope enumeration ------------------------------------------------------------------

def skeletons(length, max_depth=3):
    """All well-nested directive sequences of exactly `length` lines over {IF, ELIF, ELSE, ENDIF, MK};
    no two adjacent markers; yields trees with truth slots unfilled (spec truth=None)."""
    def gen(n, depth, prev_mk):
        """yield (list_of_nodes, used_lines) for node sequences using exactly n lines"""
        if n == 0:
            yield []
            return
        # marker
        if not prev_mk:
            for rest in gen(n - 1, depth, True):
                yield [["mk"]] + rest
        # conditional: IF body (ELIF body)* (ELSE body)? ENDIF
        if depth < max_depth and n >= 2:
            for used in range(2, n + 1):
                for cond in conds(used, depth):
                    for rest in gen(n - used, depth, False):
                        yield [cond] + rest

    def conds(n, depth):
        """conditionals using exactly n lines (including if/endif)"""
        inner = n - 2
        # split inner lines into: body0, then k elif groups (1 + body), optional else (1 + body)
        def parts(m, allow_elif):
            # yields list of (kind, body_len) after the first body
            if m == 0:
                yield []
                return
            if allow_elif:
                for b in range(0, m):
                    for rest in parts(m - 1 - b, True):
                        yield [("elif", b)] + rest
            for b in [m - 1]:
                yield [("else", b)]
        for b0 in range(0, inner + 1):
            for tail in parts(inner - b0, True):
                lens = [b0] + [b for _, b in tail]
                kinds = ["if"] + [k for k, _ in tail]
                for bodies in itertools.product(*[list(gen(l, depth + 1, False)) for l in lens]):
                    branches = []
                    els = None
                    for kd, body in zip(kinds, bodies):
                        if kd == "else":
                            els = body
                        else:
                            branches.append([{"form": kd, "truth": None, "sp": 0, "expr": None}, body])
                    yield ["cond", branches, els]
    for t in gen(length, 0, False):
        yield t


def cond_slots(tree, acc=None):
    if acc is None:
        acc = []
    for nd in tree:
        if nd[0] == "cond":
            for spec, body in nd[1]:
                acc.append(spec)
                cond_slots(body, acc)
            if nd[2] is not None:
                cond_slots(nd[2], acc)
    return acc


def shape_key(tree):
    out = []
    for nd in tree:
        if nd[0] == "cond":
            out.append(("c", tuple((s["form"], s["truth"], shape_key(b)) for s, b in nd[1]),
                        None if nd[2] is None else shape_key(nd[2])))
        else:
            out.append(nd[0])
    return tuple(out)
