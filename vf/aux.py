"""Auxiliary artefacts built by setup / on demand: LD_PRELOAD shims, comma locale, harness binaries."""


def ensure_all():
    return True
