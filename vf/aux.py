"""Auxiliary artefacts built by setup / on demand: comma-decimal locale, LD_PRELOAD shims,
harness binaries linked against the freshly built libraries (keyed by the tree hash)."""
import fcntl
import os
import subprocess

from . import build

HARNESS = os.path.join(build.VERIF, "harness")
AUXDIR = os.path.join(build.CACHE, "aux")
LOCDIR = os.path.join(build.CACHE, "locale")


def _lock(name):
    os.makedirs(AUXDIR, exist_ok=True)
    f = open(os.path.join(AUXDIR, ".lock-" + name), "w")
    fcntl.flock(f, fcntl.LOCK_EX)
    return f


def _newer(target, sources):
    if not os.path.exists(target):
        return False
    t = os.path.getmtime(target)
    return all(os.path.getmtime(s) <= t for s in sources)


def ensure_locale():
    """compile a locale whose decimal point is ',' (none is installed in the image)"""
    out = os.path.join(LOCDIR, "xx_COMMA")
    if os.path.exists(os.path.join(out, "LC_NUMERIC")):
        return LOCDIR
    with _lock("locale"):
        if os.path.exists(os.path.join(out, "LC_NUMERIC")):
            return LOCDIR
        os.makedirs(LOCDIR, exist_ok=True)
        cm = os.path.join(LOCDIR, "ASCII.cm")
        names = {}
        with open(cm, "w") as f:
            f.write("<code_set_name> ANSI_X3.4-1968\n<comment_char> %\n<escape_char> /\n<mb_cur_min> 1\n<mb_cur_max> 1\nCHARMAP\n")
            for i in range(128):
                f.write("<U%04X> /x%02x CHAR%d\n" % (i, i, i))
            f.write("END CHARMAP\n")

        def u(chars):
            return ";".join("<U%04X>" % ord(c) for c in chars)

        def s(text):
            return '"' + "".join("<U%04X>" % ord(c) for c in text) + '"'
        up = "ABCDEFGHIJKLMNOPQRSTUVWXYZ"
        lo = up.lower()
        dg = "0123456789"
        punct = "".join(chr(c) for c in range(33, 127) if not chr(c).isalnum())
        src = os.path.join(LOCDIR, "comma.src")
        days = ["Sun", "Mon", "Tue", "Wed", "Thu", "Fri", "Sat"]
        mons = ["Jan", "Feb", "Mar", "Apr", "May", "Jun", "Jul", "Aug", "Sep", "Oct", "Nov", "Dec"]
        with open(src, "w") as f:
            f.write("comment_char %\nescape_char /\n")
            f.write("LC_IDENTIFICATION\ntitle %s\nsource %s\naddress %s\ncontact %s\nemail %s\ntel %s\nfax %s\nlanguage %s\nterritory %s\nrevision %s\ndate %s\n"
                    % tuple([s("x")] * 11))
            for cat in ["LC_IDENTIFICATION", "LC_CTYPE", "LC_COLLATE", "LC_TIME", "LC_NUMERIC", "LC_MONETARY", "LC_MESSAGES",
                        "LC_PAPER", "LC_NAME", "LC_ADDRESS", "LC_TELEPHONE", "LC_MEASUREMENT"]:
                f.write('category "i18n:2012";%s\n' % cat)
            f.write("END LC_IDENTIFICATION\n")
            f.write("LC_CTYPE\nupper %s\nlower %s\ndigit %s\nspace %s\ncntrl %s\npunct %s\nxdigit %s\nblank %s\n" % (
                u(up), u(lo), u(dg), u(" \t\n\v\f\r"), u("".join(chr(c) for c in list(range(0, 32)) + [127])), u(punct),
                u(dg + "ABCDEFabcdef"), u(" \t")))
            f.write("toupper %s\n" % ";".join("(<U%04X>,<U%04X>)" % (ord(a), ord(b)) for a, b in zip(lo, up)))
            f.write("tolower %s\n" % ";".join("(<U%04X>,<U%04X>)" % (ord(a), ord(b)) for a, b in zip(up, lo)))
            f.write("END LC_CTYPE\n")
            f.write("LC_COLLATE\norder_start forward\nUNDEFINED\norder_end\nEND LC_COLLATE\n")
            f.write("LC_NUMERIC\ndecimal_point %s\nthousands_sep %s\ngrouping 3;3\nEND LC_NUMERIC\n" % (s(","), s(".")))
            f.write("LC_MONETARY\nint_curr_symbol %s\ncurrency_symbol %s\nmon_decimal_point %s\nmon_thousands_sep %s\n"
                    "mon_grouping 3;3\npositive_sign %s\nnegative_sign %s\nint_frac_digits -1\nfrac_digits -1\n"
                    "p_cs_precedes -1\np_sep_by_space -1\nn_cs_precedes -1\nn_sep_by_space -1\np_sign_posn -1\nn_sign_posn -1\n"
                    "END LC_MONETARY\n" % (s("XXX "), s("X"), s(","), s("."), s(""), s("-")))
            f.write("LC_TIME\nabday %s\nday %s\nabmon %s\nmon %s\nd_t_fmt %s\nd_fmt %s\nt_fmt %s\nam_pm %s;%s\nt_fmt_ampm %s\nEND LC_TIME\n" % (
                ";".join(s(d) for d in days), ";".join(s(d) for d in days), ";".join(s(m) for m in mons),
                ";".join(s(m) for m in mons), s("%a %b %e %H:%M:%S %Y"), s("%m/%d/%y"), s("%H:%M:%S"), s("AM"), s("PM"),
                s("%I:%M:%S %p")))
            f.write("LC_MESSAGES\nyesexpr %s\nnoexpr %s\nEND LC_MESSAGES\n" % (s("^[yY]"), s("^[nN]")))
            f.write("LC_PAPER\nheight 297\nwidth 210\nEND LC_PAPER\n")
            f.write("LC_NAME\nname_fmt %s\nEND LC_NAME\n" % s("%p%t%g%t%m%t%f"))
            f.write("LC_ADDRESS\npostal_fmt %s\nEND LC_ADDRESS\n" % s("%a%N%f%N%d%N%b%N%s %h %e %r%N%C-%z %T%N%c%N"))
            f.write("LC_TELEPHONE\ntel_int_fmt %s\nEND LC_TELEPHONE\n" % s("+%c %a %l"))
            f.write("LC_MEASUREMENT\nmeasurement 1\nEND LC_MEASUREMENT\n")
        r = subprocess.run(["localedef", "-c", "-f", cm, "-i", src, out], stdout=subprocess.PIPE, stderr=subprocess.STDOUT)
        if not os.path.exists(os.path.join(out, "LC_NUMERIC")):
            raise build.BuildError("localedef failed: " + r.stdout.decode()[-800:])
    return LOCDIR


def ensure_so(name):
    """LD_PRELOAD shims (plain C, independent of the repo)"""
    src = os.path.join(HARNESS, name + ".c")
    out = os.path.join(AUXDIR, name + ".so")
    if _newer(out, [src]):
        return out
    with _lock(name):
        if _newer(out, [src]):
            return out
        r = subprocess.run(["gcc", "-O2", "-fPIC", "-shared", "-o", out + ".tmp", src, "-ldl"], stdout=subprocess.PIPE,
                           stderr=subprocess.STDOUT)
        if r.returncode != 0:
            raise build.BuildError("building %s failed: %s" % (name, r.stdout.decode()[-800:]))
        os.replace(out + ".tmp", out)
    return out


def ensure_harness(name, variant="std", libs=("dtoolbase",), extra=(), compiler=None, san=None, pre=None):
    """Compile harness/<name>.cxx against the libraries of the current tree."""
    bd = build.ensure(variant)
    src = os.path.join(HARNESS, name + ".cxx")
    out = os.path.join(bd, "verif-" + name)
    gen = os.path.join(bd, "verif-gen")
    os.makedirs(gen, exist_ok=True)
    deps = [src]
    if pre:
        deps += pre(gen)
    deps = deps + [os.path.join(bd, "lib", "lib%s.a" % l) for l in libs if os.path.exists(os.path.join(bd, "lib", "lib%s.a" % l))]
    if _newer(out, deps):
        return out
    with _lock(name + "-" + variant):
        if _newer(out, deps):
            return out
        cxx = compiler or ("clang++" if variant == "fuzz" else "g++")
        flags = ["-std=gnu++17", "-O1", "-g", "-D" + build.GUARD]
        if variant != "std":
            flags += ["-fno-rtti", "-fno-sanitize=vptr"]      # the project is built without RTTI
        if san is None:
            san = {"std": [], "asan": ["-fsanitize=address,undefined", "-fno-sanitize-recover=undefined"],
                   "fuzz": ["-fsanitize=fuzzer,address,undefined", "-fno-sanitize-recover=undefined", "-D_GLIBCXX_ASSERTIONS"]}[variant]
        inc = ["-I", gen]
        for d in build.include_dirs(variant):
            inc += ["-I", d]
        libargs = []
        for l in libs:
            a = os.path.join(bd, "lib", "lib%s.a" % l)
            if os.path.exists(a):
                libargs.append(a)
            else:
                libargs += ["-L" + os.path.join(bd, "lib"), "-l" + l, "-Wl,-rpath," + os.path.join(bd, "lib")]
        cmd = [cxx] + flags + san + inc + [src, "-o", out + ".tmp"] + libargs + list(extra)
        r = subprocess.run(cmd, stdout=subprocess.PIPE, stderr=subprocess.STDOUT)
        if r.returncode != 0:
            raise build.BuildError("building harness %s failed:\n%s" % (name, r.stdout.decode()[-3000:]))
        os.replace(out + ".tmp", out)
    return out


def ensure_all():
    ensure_locale()
    for so in ("shufflealloc", "faultfs"):
        if os.path.exists(os.path.join(HARNESS, so + ".c")):
            ensure_so(so)
    return True


PYRT_SOURCES = ("py_panda.cxx", "py_support.cxx", "py_compat.cxx", "py_wrappers.cxx", "dtool_super_base.cxx")


def ensure_pyrt(san=False):
    """The python-native run-time support (src/interrogatedb/py_*.cxx) as one object file, built from the current tree with
    the shim headers: what interrogate_module embeds into its output, for modules that are built without it (-do-module)."""
    import sysconfig
    bd = build.ensure("std")
    out = os.path.join(bd, "verif-pyrt%s.o" % ("-asan" if san else ""))
    srcs = [os.path.join(build.REPO, "src", "interrogatedb", s) for s in PYRT_SOURCES]
    if _newer(out, srcs):
        return out
    with _lock("pyrt"):
        if _newer(out, srcs):
            return out
        tu = os.path.join(bd, "verif-pyrt.cxx")
        with open(tu, "w") as f:
            for s in srcs:
                f.write('#include "%s"\n' % s)
        shims = os.path.join(build.VERIF, "shims")
        cmd = ["g++", "-std=gnu++17", "-w", "-O0", "-g", "-fPIC", "-c", "-DHAVE_PYTHON", "-I", shims, "-I", os.path.join(shims, "sys"),
               "-I", os.path.join(build.REPO, "src", "dtoolbase"), "-I", os.path.join(build.REPO, "src", "interrogatedb"),
               "-I", sysconfig.get_paths()["include"], tu, "-o", out + ".tmp"]
        if san:
            cmd[1:1] = ["-fsanitize=address"]
        r = subprocess.run(cmd, stdout=subprocess.PIPE, stderr=subprocess.STDOUT)
        if r.returncode != 0:
            raise build.BuildError("building the python run-time object failed: %s" % r.stdout.decode()[-1500:])
        os.replace(out + ".tmp", out)
    return out
