"""Process runner: rlimits, timeouts, signal classification, sanitizer detection."""
import os
import resource
import shutil
import signal
import subprocess
import tempfile
import time

from . import build

SAN_EXIT = 97          # reserved exit code for sanitizer reports
RUN_ROOT = os.path.join(build.CACHE, "run")


class Result:
    __slots__ = ("rc", "out", "err", "timed_out", "wall")

    def __init__(self, rc, out, err, timed_out, wall):
        self.rc, self.out, self.err, self.timed_out, self.wall = rc, out, err, timed_out, wall

    @property
    def signal(self):
        return -self.rc if self.rc is not None and self.rc < 0 else 0

    @property
    def sanitizer(self):
        return self.rc == SAN_EXIT or b"ERROR: AddressSanitizer" in self.err or b"runtime error:" in self.err \
            or b"ERROR: LeakSanitizer" in self.err

    @property
    def abnormal(self):
        """died from a signal / sanitizer / hang: never an acceptable way to end"""
        return self.timed_out or self.signal != 0 or self.sanitizer

    def kind(self):
        if self.timed_out:
            return "timeout"
        if self.signal:
            try:
                return signal.Signals(self.signal).name
            except ValueError:
                return "SIG%d" % self.signal
        if self.sanitizer:
            return "sanitizer"
        return "exit%d" % self.rc

    def text(self):
        return self.out.decode("latin-1"), self.err.decode("latin-1")


def _limits(mem_mb, stack_mb):
    def f():
        if mem_mb:
            resource.setrlimit(resource.RLIMIT_AS, (mem_mb << 20, mem_mb << 20))
        if stack_mb:
            try:
                resource.setrlimit(resource.RLIMIT_STACK, (stack_mb << 20, stack_mb << 20))
            except ValueError:
                pass
        resource.setrlimit(resource.RLIMIT_CORE, (0, 0))
        os.setsid()
    return f


def base_env(extra=None):
    env = {"PATH": os.environ.get("PATH", "/usr/bin:/bin"), "HOME": "/tmp", "LC_ALL": "C",
           "ASAN_OPTIONS": "exitcode=%d:detect_leaks=0:abort_on_error=0:allocator_may_return_null=1" % SAN_EXIT,
           "UBSAN_OPTIONS": "exitcode=%d:print_stacktrace=1:halt_on_error=1" % SAN_EXIT}
    if extra:
        env.update(extra)
    return env


def run(argv, cwd=None, timeout=30, env=None, stdin=None, mem_mb=4096, stack_mb=8, asan=False):
    """Run argv; never raises on failure of the child."""
    if env is None:
        env = base_env()
    if asan:
        mem_mb = 0      # ASan reserves terabytes of address space
        stack_mb = max(stack_mb, 256)     # instrumented frames are several times larger
    t0 = time.time()
    try:
        p = subprocess.Popen(argv, cwd=cwd, env=env, stdin=subprocess.PIPE if stdin is not None else subprocess.DEVNULL,
                             stdout=subprocess.PIPE, stderr=subprocess.PIPE, preexec_fn=_limits(mem_mb, stack_mb))
    except OSError as e:
        return Result(127, b"", str(e).encode(), False, 0.0)
    try:
        out, err = p.communicate(stdin, timeout=timeout)
        to = False
    except subprocess.TimeoutExpired:
        try:
            os.killpg(p.pid, signal.SIGKILL)
        except OSError:
            pass
        out, err = p.communicate()
        to = True
    return Result(p.returncode, out, err, to, time.time() - t0)


class Scratch:
    """Scratch directory under /verif/.cache/run (or /dev/shm), removed on exit."""

    def __init__(self, tag="s", shm=True, keep=False):
        root = "/dev/shm/verif-run" if shm and os.path.isdir("/dev/shm") else RUN_ROOT
        os.makedirs(root, exist_ok=True)
        self.path = tempfile.mkdtemp(prefix=tag + "-", dir=root)
        self.keep = keep

    def __enter__(self):
        return self.path

    def __exit__(self, *a):
        if not self.keep:
            shutil.rmtree(self.path, ignore_errors=True)

    def file(self, name, data):
        p = os.path.join(self.path, name)
        os.makedirs(os.path.dirname(p), exist_ok=True)
        with open(p, "wb" if isinstance(data, bytes) else "w") as f:
            f.write(data)
        return p


def write(path, data):
    os.makedirs(os.path.dirname(path), exist_ok=True)
    with open(path, "wb" if isinstance(data, bytes) else "w") as f:
        f.write(data)
    return path


PARSER_INC = os.path.join(build.REPO, "parser-inc")
