"""Foreign-function client for the -c back-end, driven only by what the harness extracted from the interrogate database:
wrapper symbol names and the database's type names.  Reads a JSON plan, calls the wrappers through ctypes, prints one RET line
per step in the canonical value format of shims/sys/verif_rt.h."""
import ctypes
import json
import os
import struct
import sys

CT = {
    "bool": (ctypes.c_bool, "b"), "char": (ctypes.c_byte, "i8"), "signed char": (ctypes.c_byte, "i8"), "unsigned char": (ctypes.c_ubyte, "u8"),
    "short int": (ctypes.c_short, "i16"), "unsigned short int": (ctypes.c_ushort, "u16"), "int": (ctypes.c_int, "i32"),
    "unsigned int": (ctypes.c_uint, "u32"), "long int": (ctypes.c_long, "i64"), "unsigned long int": (ctypes.c_ulong, "u64"),
    "long long int": (ctypes.c_longlong, "i64"), "unsigned long long int": (ctypes.c_ulonglong, "u64"),
    "float": (ctypes.c_float, "f32"), "double": (ctypes.c_double, "f64"),
}


def ctype_of(t):
    k = t["k"]
    if k == "prim":
        return CT[t["name"]][0]
    if k == "enum":
        return ctypes.c_int
    if k == "str":
        return ctypes.c_char_p
    if k == "ptr":
        return ctypes.c_void_p
    if k == "void":
        return None
    raise SystemExit("unknown type %r" % (t,))


def fmt(t, v, lib):
    k = t["k"]
    if k == "void":
        return "void"
    if k == "prim":
        code = CT[t["name"]][1]
        if code == "b":
            return "b:%d" % (1 if v else 0)
        if code == "f32":
            return "f32:" + struct.pack("<f", v).hex()
        if code == "f64":
            return "f64:" + struct.pack("<d", v).hex()
        return "%s:%d" % (code, v)
    if k == "enum":
        return "e:%d" % v
    if k == "str":
        return "nil" if v is None else "s:" + v.hex()
    if k == "ptr":
        if not v:
            return "nil"
        f = getattr(lib, "vf_desc_K%d" % t["cls"])
        f.restype = ctypes.c_char_p
        f.argtypes = [ctypes.c_void_p]
        return f(v).decode()
    raise SystemExit("unknown type %r" % (t,))


def main():
    plan = json.load(open(sys.argv[1]))
    lib = ctypes.CDLL(plan["so"], mode=os.RTLD_NOW | os.RTLD_GLOBAL)
    slots = {}
    for i, st in enumerate(plan["steps"]):
        fn = getattr(lib, st["w"])
        fn.argtypes = [ctype_of(p) for p in st["ptypes"]]
        fn.restype = ctype_of(st["rtype"])
        args = []
        for p, a in zip(st["ptypes"], st["args"]):
            if a["k"] == "slot":
                args.append(slots[a["slot"]])
            elif a["k"] == "null":
                args.append(None)
            elif a["k"] == "bytes":
                args.append(bytes.fromhex(a["hex"]))
            else:
                args.append(a["v"])
        r = fn(*args)
        if st.get("bind") is not None:
            slots[st["bind"]] = r
        print("RET %d %s" % (i, fmt(st["rtype"], r, lib)), flush=True)
        if st.get("free_with") and r:
            d = getattr(lib, st["free_with"])
            d.argtypes = [ctypes.c_void_p]
            d.restype = None
            d(r)
        if st.get("kill") is not None:
            slots.pop(st["kill"], None)
    print("DONE", flush=True)


if __name__ == "__main__":
    main()
