"""Generates the call table of the C query interface from interrogate_interface.h (so that new
functions are covered automatically)."""
import os
import re

from . import build

HDR = os.path.join(build.REPO, "src", "interrogatedb", "interrogate_interface.h")
KIND = {"TypeIndex": "t", "FunctionIndex": "f", "FunctionWrapperIndex": "w", "ManifestIndex": "m",
        "ElementIndex": "e", "MakeSeqIndex": "s"}
# binary accessor -> its count function
COUNT_OF = [
    (r"interrogate_function_c_wrapper$", "interrogate_function_number_of_c_wrappers"),
    (r"interrogate_function_python_wrapper$", "interrogate_function_number_of_python_wrappers"),
    (r"interrogate_wrapper_parameter_", "interrogate_wrapper_number_of_parameters"),
    (r"interrogate_type_enum_value", "interrogate_type_number_of_enum_values"),
    (r"interrogate_type_get_constructor$", "interrogate_type_number_of_constructors"),
    (r"interrogate_type_get_element$", "interrogate_type_number_of_elements"),
    (r"interrogate_type_get_method$", "interrogate_type_number_of_methods"),
    (r"interrogate_type_get_make_seq$", "interrogate_type_number_of_make_seqs"),
    (r"interrogate_type_get_cast$", "interrogate_type_number_of_casts"),
    (r"interrogate_type_(get_derivation|derivation_|get_upcast|get_downcast)", "interrogate_type_number_of_derivations"),
    (r"interrogate_type_get_nested_type$", "interrogate_type_number_of_nested_types"),
]
# positional enumerations  accessor(n) -> count()
ENUMS = {"interrogate_get_manifest": "interrogate_number_of_manifests", "interrogate_get_global": "interrogate_number_of_globals",
         "interrogate_get_global_function": "interrogate_number_of_global_functions",
         "interrogate_get_function": "interrogate_number_of_functions",
         "interrogate_get_global_type": "interrogate_number_of_global_types", "interrogate_get_type": "interrogate_number_of_types"}


def parse_header():
    txt = open(HDR).read()
    fns = []
    for m in re.finditer(r"^EXPCL_INTERROGATEDB\s+(.*?)\s*\b(interrogate_\w+)\s*\(([^)]*)\)\s*;", txt, re.M):
        ret, name, args = m.group(1).strip(), m.group(2), m.group(3).strip()
        params = [a.strip() for a in args.split(",")] if args else []
        ptypes = [re.sub(r"\s*\w+$", "", p).strip() if not p.endswith("*") else p for p in params]
        fns.append(dict(name=name, ret=ret, ptypes=ptypes))
    return fns


def _retkind(ret):
    if ret == "bool":
        return "b"
    if ret in ("int", "AtomicToken"):
        return "i"
    if ret in KIND:
        return KIND[ret].upper()
    if ret == "const char *":
        return "s"
    if ret == "void *":
        return "p"
    if ret == "void":
        return "v"
    return "?"


def classify(fns):
    out = []
    for f in fns:
        pt = f["ptypes"]
        rk = _retkind(f["ret"])
        shape = None
        if not pt:
            shape = "nullary"
        elif len(pt) == 1 and pt[0] == "int":
            shape = "bypos"
        elif len(pt) == 1 and pt[0] == "const char *":
            shape = "byname"
        elif len(pt) == 1 and pt[0] in KIND:
            shape = "unary"
        elif len(pt) == 2 and pt[0] in KIND and pt[1] == "int":
            shape = "binary"
        if shape is None or rk in ("?",):
            out.append(dict(f, shape="skip", rk=rk, kind="-", count=""))
            continue
        kind = KIND.get(pt[0], "-") if shape in ("unary", "binary") else "-"
        if kind != "-":
            # the record kind follows the function's name (interrogate_make_seq_has_comment declares an ElementIndex)
            for pre, k in (("interrogate_type_", "t"), ("interrogate_function_", "f"), ("interrogate_wrapper_", "w"),
                           ("interrogate_manifest_", "m"), ("interrogate_element_", "e"), ("interrogate_make_seq_", "s")):
                if f["name"].startswith(pre):
                    kind = k
        count = ""
        if shape == "binary":
            for pat, cf in COUNT_OF:
                if re.match(pat, f["name"]):
                    count = cf
                    break
        if shape == "bypos":
            count = ENUMS.get(f["name"], "")
        out.append(dict(f, shape=shape, rk=rk, kind=kind, count=count))
    return out


def generate(path):
    fns = classify(parse_header())
    L = ["// generated from interrogate_interface.h -- do not edit", "struct IfaceFn { const char *name; const char *shape; char kind; char rk; const char *count;",
         "  std::string (*c0)(); std::string (*c1)(int); std::string (*c2)(int, int); std::string (*cs)(const char *); };"]
    rows = []
    for f in fns:
        n = f["name"]
        if f["shape"] == "skip" or f["rk"] == "v":
            continue
        if f["shape"] == "nullary":
            L.append("static std::string call_%s() { return J(%s()); }" % (n, n))
            rows.append('{"%s", "nullary", \'-\', \'%s\', "", call_%s, nullptr, nullptr, nullptr}' % (n, f["rk"], n))
        elif f["shape"] in ("bypos", "unary"):
            L.append("static std::string call_%s(int a) { return J(%s(a)); }" % (n, n))
            rows.append('{"%s", "%s", \'%s\', \'%s\', "%s", nullptr, call_%s, nullptr, nullptr}' % (n, f["shape"], f["kind"], f["rk"], f["count"], n))
        elif f["shape"] == "binary":
            L.append("static std::string call_%s(int a, int b) { return J(%s(a, b)); }" % (n, n))
            rows.append('{"%s", "binary", \'%s\', \'%s\', "%s", nullptr, nullptr, call_%s, nullptr}' % (n, f["kind"], f["rk"], f["count"], n))
        elif f["shape"] == "byname":
            L.append("static std::string call_%s(const char *a) { return J(%s(a)); }" % (n, n))
            rows.append('{"%s", "byname", \'-\', \'%s\', "", nullptr, nullptr, nullptr, call_%s}' % (n, f["rk"], n))
    L.append("static const IfaceFn iface_fns[] = {\n  " + ",\n  ".join(rows) + "\n};")
    L.append("static const int n_iface_fns = %d;" % len(rows))
    txt = "\n".join(L) + "\n"
    if not os.path.exists(path) or open(path).read() != txt:
        with open(path, "w") as fh:
            fh.write(txt)
    return fns
