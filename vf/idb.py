"""Client of harness/idbtool: scripts against the query interface, one process per script."""
import json
import os

from . import aux, build, ifacegen, run


def _pre(gen):
    path = os.path.join(gen, "iface_gen.inc")
    ifacegen.generate(path)
    return [path, ifacegen.HDR]


def tool(variant="fuzz"):
    libs = ("interrogatedb", "dtoolutil", "dtoolbase")
    san = ["-fsanitize=address,undefined", "-fno-sanitize-recover=undefined"] if variant == "fuzz" else None
    return aux.ensure_harness("idbtool", variant, libs=libs, pre=_pre, san=san)


def hexs(s):
    if isinstance(s, str):
        s = s.encode("latin-1")
    return s.hex() or "-"


class ScriptResult:
    def __init__(self, res, lines):
        self.res = res
        self.lines = lines

    @property
    def crashed(self):
        return self.res.abnormal or self.res.rc != 0


def run_script(cmds, variant="fuzz", timeout=120, cwd=None):
    t = tool(variant)
    r = run.run([t], stdin=("\n".join(cmds) + "\n").encode("latin-1"), timeout=timeout, cwd=cwd, asan=(variant != "std"),
                env=run.base_env())
    return ScriptResult(r, r.out.decode("latin-1").split("\n"))


def parse_dump(lines):
    """lines between a 'dump' command's output start and ENDDUMP -> dict"""
    d = {"nul": {}, "enum": {}, "rec": {}}
    for ln in lines:
        if ln.startswith("NUL "):
            k, v = ln[4:].split("=", 1)
            d["nul"][k] = json.loads(v)
        elif ln.startswith("ENUM "):
            k, v = ln[5:].split("=", 1)
            d["enum"][k] = json.loads(v)
        elif ln.startswith("REC "):
            parts = ln.split(" ", 3)
            kind, idx = parts[1], int(parts[2])
            rec = {}
            rest = parts[3] if len(parts) > 3 else ""
            # fields are "name=json" separated by single spaces; json strings may contain spaces -> scan
            i = 0
            n = len(rest)
            while i < n:
                j = rest.index("=", i)
                name = rest[i:j]
                v, end = json.JSONDecoder().raw_decode(rest, j + 1)
                rec[name] = v
                i = end + 1
            d["rec"][(kind, idx)] = rec
    return d


def split_outputs(lines):
    """split the output lines of a script into per-command chunks is not needed: helpers below"""
    return lines


def dumps_in(lines):
    """all dumps of a script output, in order"""
    out, cur = [], None
    for ln in lines:
        if ln.startswith(("NUL ", "ENUM ", "REC ")):
            if cur is None:
                cur = []
            cur.append(ln)
        elif ln == "ENDDUMP":
            out.append(parse_dump(cur or []))
            cur = None
    return out
