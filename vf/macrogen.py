"""Macro-program generator for C08 (Hypothesis strategy + renderer + feature tags)."""
import re

from hypothesis import strategies as st

IDS = ["qa", "qb", "qc", "qd", "qe", "zed", "k9", "w_w"]
PUNCTS = ["+", "-", "*", "/", "%", "<", ">", "<=", ">=", "==", "!=", "&", "|", "^", "~", "!", "=", "?", ";",
          "<<", ">>", "&&", "||", "++", "--", "->", ".", "[", "]", "{", "}", "+="]
STRS = ["", "abc", "M0", "M1(qa)", "a,b", "(", ")", "x\\\"y", "p0", "a b  c", "\\\\", "#p0", "%d\\n", "__VA_ARGS__"]
CHRS = ["a", ",", "(", "\\'", "\\n", "0", "\\\\", "\\x41"]


def _items(depth, in_def):
    leaf = [
        st.builds(lambda k: ["id", k], st.integers(0, len(IDS) - 1)),
        st.builds(lambda n, b: ["num", n, b], st.one_of(st.integers(0, 20), st.integers(0, 70000)),
                  st.sampled_from(["dec", "dec", "hex", "oct"])),
        st.builds(lambda p: ["p", p], st.sampled_from(PUNCTS)),
        st.builds(lambda s: ["str", s], st.sampled_from(STRS)),
        st.builds(lambda c: ["chr", c], st.sampled_from(CHRS)),
        st.builds(lambda k: ["m", k, None, 0], st.integers(0, 7)),
    ]
    if in_def:
        leaf += [
            st.builds(lambda i: ["par", i], st.integers(0, 3)),
            st.builds(lambda i: ["par", i], st.integers(0, 3)),
            st.builds(lambda i: ["sfy", i], st.integers(0, 4)),
            st.builds(lambda a, b: ["paste", a, b], _paste_side(), _paste_side()),
            st.builds(lambda a, b, c: ["paste3", a, b, c], _paste_side(), _paste_side(), _paste_side()),
            st.just(["va"]),
        ]
    leafs = st.one_of(leaf)
    if depth <= 0:
        return leafs
    sub = st.lists(_items(depth - 1, in_def), min_size=0, max_size=4)
    args = st.lists(st.lists(_items(depth - 1, in_def), min_size=0, max_size=3), min_size=0, max_size=4)
    alts = [leafs, leafs,
            st.builds(lambda k, a, ml: ["m", k, a, ml], st.integers(0, 7), args, st.integers(0, 3)),
            st.builds(lambda g, comma: ["grp", g, comma], sub, st.booleans())]
    if in_def:
        alts.append(st.builds(lambda g: ["vaopt", g], sub))
    return st.one_of(alts)


def _paste_side():
    return st.one_of(
        st.builds(lambda i: ["par", i], st.integers(0, 3)),
        st.builds(lambda k: ["id", k], st.integers(0, len(IDS) - 1)),
        st.builds(lambda n: ["num", n, "dec"], st.integers(0, 99)),
        st.just(["va"]),
    )


def _def():
    return st.builds(lambda fn, np, va, body: {"fn": fn, "np": np, "va": va, "body": body},
                     st.booleans(), st.integers(0, 3), st.sampled_from([0, 0, 0, 1, 2]),
                     st.lists(_items(2, True), min_size=0, max_size=7))


def _stmt():
    use = st.builds(lambda t: {"t": "use", "toks": t}, st.lists(_items(2, False), min_size=1, max_size=6))
    return st.one_of(
        use, use, use, use,
        st.builds(lambda k: {"t": "undef", "m": k}, st.integers(0, 7)),
        st.builds(lambda k, d: {"t": "redef", "m": k, "d": d}, st.integers(0, 7), _def()),
        st.builds(lambda k: {"t": "push", "m": k}, st.integers(0, 7)),
        st.builds(lambda k: {"t": "pop", "m": k}, st.integers(0, 7)),
    )


def programs():
    cmd = st.lists(st.tuples(st.integers(0, 7), st.lists(_items(0, False), min_size=0, max_size=3)), max_size=2)
    return st.builds(lambda defs, cmd, body: {"defs": defs, "cmd": cmd, "body": body},
                     st.lists(_def(), min_size=1, max_size=8), cmd, st.lists(_stmt(), min_size=1, max_size=12))


# ---- rendering ----------------------------------------------------------------------------------

class R:
    def __init__(self, prog, off=frozenset()):
        self.prog = prog
        self.nm = len(prog["defs"])
        self.tags = set()
        self.off = off
        # current (generation-time) view of which macros are function-like, for choosing arg counts;
        # it is only a heuristic -- gcc decides validity
        self.shape = {k: d for k, d in enumerate(prog["defs"])}
        self.in_args = 0
        self._cycles()

    def _refs(self, items, acc):
        for it in items:
            k = it[0]
            if k == "m":
                acc.add(it[1] % self.nm)
                if it[2]:
                    for a in it[2]:
                        self._refs(a, acc)
            elif k in ("grp", "vaopt"):
                self._refs(it[1], acc)
        return acc

    def _cycles(self):
        """cyc[k]: macro k lies on a reference cycle (over all versions of all definitions);
        fncyc[k]: ... and that cycle contains a function-like macro"""
        n = self.nm
        edges = {k: set() for k in range(n)}
        fn = {k: False for k in range(n)}
        vers = [(k, d) for k, d in enumerate(self.prog["defs"])]
        vers += [(s["m"] % n, s["d"]) for s in self.prog["body"] if s["t"] == "redef"]
        for k, d in vers:
            self._refs(d["body"], edges[k])
            fn[k] = fn[k] or d["fn"]
        reach = {k: set(edges[k]) for k in range(n)}
        changed = True
        while changed:
            changed = False
            for k in range(n):
                new = set()
                for j in reach[k]:
                    new |= reach[j]
                if not new <= reach[k]:
                    reach[k] |= new
                    changed = True
        self.reach = reach
        self.cyc = {k: k in reach[k] for k in range(n)}
        self.fncyc = {k: self.cyc[k] and any(fn[j] for j in reach[k] if k in reach[j]) for k in range(n)}

    def mname(self, k):
        return "M%d" % (k % self.nm)

    def num(self, n, base):
        if base == "hex":
            return "0x%X" % n
        if base == "oct":
            return "0%o" % n
        if base == "real":
            return "%d.%s" % (n // 4, ["0", "25", "5", "75"][n % 4])
        return "%d" % n

    def item(self, it, d):
        """d: the enclosing definition (dict) or None at use level"""
        k = it[0]
        if k == "id":
            return IDS[it[1]]
        if k == "num":
            return self.num(it[1], it[2])
        if k == "p":
            return it[1]
        if k == "str":
            self.tags.add("pp.string")
            return '"%s"' % it[1]
        if k == "chr":
            return "'%s'" % it[1]
        if k == "par":
            if d and d["fn"] and d["np"]:
                return "p%d" % (it[1] % d["np"])
            return IDS[it[1] % len(IDS)]
        if k == "va":
            if d and d["fn"] and d["va"]:
                self.tags.add("pp.variadic")
                return "__VA_ARGS__" if d["va"] == 1 else "rest"
            return IDS[0]
        if k == "sfy":
            if d and d["fn"] and (d["np"] or d["va"]) and "pp.stringify" not in self.off:
                self.tags.add("pp.stringify")
                n = d["np"] + (1 if d["va"] else 0)
                i = it[1] % n
                if i < d["np"]:
                    return "#p%d" % i
                if "pp.stringify.va" in self.off:
                    return IDS[1]
                self.tags.add("pp.stringify.va")
                return "#__VA_ARGS__" if d["va"] == 1 else "#rest"
            return IDS[1]
        if k == "paste":
            if "pp.paste" in self.off:
                return self.item(it[1], d)
            self.tags.add("pp.paste")
            return "%s ## %s" % (self.item(it[1], d), self.item(it[2], d))
        if k == "paste3":
            if "pp.paste" in self.off:
                return self.item(it[1], d)
            self.tags.add("pp.paste")
            self.tags.add("pp.paste.chain")
            return "%s ## %s ## %s" % (self.item(it[1], d), self.item(it[2], d), self.item(it[3], d))
        if k == "vaopt":
            if d and d["fn"] and d["va"] == 1 and "pp.va_opt" not in self.off:
                self.tags.add("pp.va_opt")
                inner = self.items(it[1], d)
                if re.search(r'''["'][^"']*[()][^"']*["']''', inner):
                    if "pp.va_opt.paren_in_literal" in self.off:
                        inner = inner.replace("(", "[").replace(")", "]")
                    else:
                        self.tags.add("pp.va_opt.paren_in_literal")
                return "__VA_OPT__(%s)" % inner
            return self.items(it[1], d)
        if k == "grp":
            inner = [self.item(x, d) for x in it[1]]
            if it[2]:
                self.tags.add("pp.paren_comma")
            return "(" + (" , " if it[2] else " ").join(inner) + ")"
        if k == "m":
            name = self.mname(it[1])
            ti = it[1] % self.nm
            tgt = self.shape[ti]
            me = d.get("_k") if d is not None else None
            if me is not None and ti in self.reach and me in self.reach[ti] | {ti} and (ti == me or me in self.reach[ti]):
                # a reference that closes a cycle
                if self.fncyc[ti]:
                    if "pp.selfref.fn" in self.off:
                        return IDS[3]
                    self.tags.add("pp.selfref.fn")
                else:
                    self.tags.add("pp.selfref.obj")
            elif me is not None:
                self.tags.add("pp.nested_ref")
            closes = me is not None and ti in self.reach and (ti == me or me in self.reach[ti])
            if self.cyc[ti] and self.in_args and not closes:
                # a macro that lies on a cycle, named inside an argument by something outside that cycle (known finding: its paint
                # is lost).  Naming an enclosing, still active macro inside an argument is a different mechanism and stays in.
                if "pp.cyclic_in_arg" in self.off:
                    return IDS[4]
                self.tags.add("pp.cyclic_in_arg")
            elif self.cyc[ti] and self.in_args:
                self.tags.add("pp.active_macro_in_arg")
            if it[2] is None:
                if tgt["fn"]:
                    self.tags.add("pp.fn_name_no_paren")
                    return name + " " + IDS[2]
                return name
            if not tgt["fn"]:
                return name
            self.tags.add("pp.funclike_call")
            self.in_args += 1
            args = [self.items(a, d) for a in it[2]]
            self.in_args -= 1
            need = tgt["np"]
            if tgt["va"]:
                if len(args) < need:
                    args += [IDS[i % len(IDS)] for i in range(need - len(args))]
                if len(args) >= need + 2 and (it[1] // max(self.nm, 1)) % 2 == 0:
                    # an empty first variadic argument followed by more: the variable argument is not empty (__VA_OPT__ expands)
                    args[need] = ""
                    self.tags.add("pp.variadic_empty_first")
                if len(args) > need:
                    self.tags.add("pp.variadic_args")
            else:
                args = (args + [IDS[i % len(IDS)] for i in range(need)])[:need]
            if any(a.strip() == "" for a in args):
                self.tags.add("pp.empty_arg")
            if any("M" in a for a in args):
                self.tags.add("pp.macro_in_arg")
            ml = it[3]
            if ml and args:
                self.tags.add("pp.multiline_call")
                sep = " ,\n   " if ml == 1 else ",\n"
                return "%s%s(%s)" % (name, "\n" if ml == 3 else "", sep.join(args))
            return "%s(%s)" % (name, ", ".join(args))
        raise ValueError(it)

    def items(self, its, d):
        return " ".join(self.item(x, d) for x in its)

    def define(self, k, d):
        d = dict(d)
        d["_k"] = k
        name = "M%d" % k
        if d["fn"]:
            ps = ["p%d" % i for i in range(d["np"])]
            if d["va"] == 1:
                ps.append("...")
            elif d["va"] == 2:
                ps.append("rest...")
                self.tags.add("pp.named_variadic")
            self.tags.add("pp.funclike")
            head = "%s(%s)" % (name, ", ".join(ps))
        else:
            self.tags.add("pp.objlike")
            head = name
        body = self.items(d["body"], d).replace("\n", " \\\n")
        return "#define %s %s" % (head, body)


def render(prog, off=frozenset()):
    """-> (source text, [-D options], tags)"""
    r = R(prog, off)
    lines = []
    for k, d in enumerate(prog["defs"]):
        lines.append(r.define(k, d))
    dopts = []
    for k, toks in prog["cmd"]:
        name = "D%d" % (k % 4)
        val = r.items(toks, None)
        if not val.strip() or '"' in val or "'" in val:
            val = "%d" % k
        dopts.append("-D%s=%s" % (name, val))
        r.tags.add("pp.cmdline_D")
        lines.append("d%d : %s ;" % (k % 4, name))
    for i, s in enumerate(prog["body"]):
        t = s["t"]
        if t == "use":
            lines.append("u%d : %s ;" % (i, r.items(s["toks"], None)))
        elif t == "undef":
            r.tags.add("pp.undef")
            lines.append("#undef %s" % r.mname(s["m"]))
        elif t == "redef":
            r.tags.add("pp.redefine")
            k = s["m"] % r.nm
            lines.append("#undef M%d" % k)
            lines.append(r.define(k, s["d"]))
            r.shape[k] = s["d"]
        elif t == "push":
            r.tags.add("pp.push_pop")
            lines.append('#pragma push_macro("%s")' % r.mname(s["m"]))
        elif t == "pop":
            r.tags.add("pp.push_pop")
            lines.append('#pragma pop_macro("%s")' % r.mname(s["m"]))
    return "\n".join(lines) + "\n", dopts, r.tags
