"""Build pipeline for generated bindings: interrogate -> g++ -> interrogate_module -> link -> import.
Shared by C01/C02/C03/C11."""
import os
import re
import sys

from . import build, hgen, igate, run

PY = sys.executable


def write_lib(d, lib, extra_header="", extra_impl=""):
    for f, txt in lib.files.items():
        if f == lib.main and extra_header:
            # inside the include guard: before the final #endif
            i = txt.rstrip().rfind("#endif")
            txt = txt[:i] + extra_header + "\n" + txt[i:]
        run.write(os.path.join(d, f), txt)
    impl = lib.impl_text if hasattr(lib, "impl_text") else hgen.render_impl(lib)
    run.write(os.path.join(d, "impl_%s.cxx" % lib_tag(lib)), impl + "\n" + extra_impl)


def lib_tag(lib):
    return getattr(lib, "tag", "l")


def cc(d, src, obj, lib=None, python=True, opt="-O0", extra=()):
    inc = igate.compile_flags(python=python)
    if lib is not None:
        inc = inc + lib.gxx_inc
    return igate.gxx(d, ["-c", "-fPIC", opt] + list(extra) + inc + [src, "-o", obj], timeout=300)


def link(d, objs, out, extra=()):
    return igate.gxx(d, ["-shared", "-fPIC"] + list(objs) + ["-o", out] + list(extra), timeout=300)


def undefined_symbols(d, so):
    r = run.run(["nm", "-D", "-u", so], cwd=d, timeout=60)
    out = []
    for line in r.out.decode().splitlines():
        p = line.split()
        if p:
            out.append(p[-1])
    return out


def defined_symbols(d, obj, dynamic=False):
    r = run.run(["nm"] + (["-D"] if dynamic else []) + ["--defined-only", obj], cwd=d, timeout=60)
    out = []
    for line in r.out.decode().splitlines():
        p = line.split()
        if len(p) >= 3:
            out.append((p[1], p[2]))
    return out


def py_run(d, code, env=None, timeout=120, trace=None, preload=None):
    e = run.base_env({"PYTHONPATH": d, "PYTHONDONTWRITEBYTECODE": "1", "PYTHONHASHSEED": "0"})
    if trace:
        e["VF_TRACE"] = trace
    if preload:
        e["LD_PRELOAD"] = preload
    if env:
        e.update(env)
    p = os.path.join(d, "_drv.py")
    run.write(p, code)
    return run.run([PY, "-S", "-E", p] if False else [PY, p], cwd=d, env=e, timeout=timeout, mem_mb=0)


def first_errors(err, n=3):
    """normalised compiler error lines (numbers and identifiers with digits masked) for clustering"""
    out = []
    for m in re.finditer(r"(?:error|undefined reference|multiple definition)[^\n]*", err):
        s = m.group(0)
        s = re.sub(r"\b[A-Za-z_]*\d\w*", "N", s)
        s = re.sub(r"'[^']*'", "'_'", s)
        s = re.sub(r"`[^']*'", "'_'", s)
        s = s[:90]
        if s not in out:
            out.append(s)
        if len(out) >= n:
            break
    return out
