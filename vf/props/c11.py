"""C11 -- database and generated code agree; the database is referentially closed.
Generated library x back-end/naming options -> interrogate; (1) every index field of every record of the .in file (read by the
independent codec vf/idbfmt.py) must refer to a record of the expected kind and the links must be mutually consistent;
(2) a translation unit that includes the generated code and takes the address of every wrapper under the exact function type
spelled from the database (return type, parameter types) must compile: g++ is the judge of 'exactly that C signature'."""
import os
import re

from hypothesis import strategies as st

from .. import bindgen, core, hgen, idbfmt, igate, run
from ..core import Outcome
from . import c03

ID = "C11"
LEVEL = "exploration"
TECHNIQUE = ("property-based testing (Hypothesis library generator x back-end/naming options): invariant check over every index field of the "
             "generated database with an independent reader, plus a compile-time differential: function-pointer initialisations spelled "
             "from the database against the generated definitions (g++ type identity)")
RULE = ("Hypothesis generates class libraries (hgen) x back-end {-c,-python,-python-native} x {-fnames,-fptrs,both,none} x {-string,-promiscuous,"
        "-true-names,-unique-names} x planted hash collisions. Checked on every database: wrapper indices are 1..N; every index field refers "
        "to an existing record of the expected kind; function<->wrapper, type<->method/constructor/nested type, element and make_seq links "
        "are mutually consistent; unique names and wrapper names are pairwise distinct. For -c and -python, 'RET (*p)(P0, P1, ...) = &name;' "
        "is compiled for every wrapper in one TU with the generated code. Non-trivial: a database with >= 10 wrappers, a derivation or "
        "nested type, and a compiled signature TU; distinct by (back-end, options, library feature classes).")
ASSUMPTIONS = ["type spellings are taken from the database's true_name (atomic string = 'char const *' for -c)",
               "the signature check needs a compiler, so it runs for the back-ends that emit one named function per wrapper (-c, -python)"]
NONTRIVIAL_FLOOR = 8

FLAGS = ["-string", "-promiscuous", "-true-names", "-unique-names"]


def stages(ctx):
    return [("libs", 16)]


def _strategy(ctx):
    flags = st.lists(st.sampled_from(FLAGS), max_size=3, unique=True)
    return st.builds(lambda raw, be, naming, fl, col: {"raw": raw, "backend": be, "naming": naming, "flags": sorted(fl), "collide": col},
                     hgen.raw_libraries(max_classes=5, max_funcs=5), st.sampled_from(["-c", "-c", "-python", "-python-native"]), st.integers(0, 3), flags,
                     st.sampled_from([0, 0, 2, 6]))


def closure_errors(db, expect_elements=None):
    """-> list of (key, text) violations of referential closure / mutual consistency"""
    errs = []
    idx = {k: idbfmt.by_index(db, k) for k in idbfmt.KINDS}
    # one index space: no index may be used by two records
    seen = {}
    for k in idbfmt.KINDS:
        if len(idx[k]) != len(db[k]):
            errs.append(("duplicate-index", "two %s records share an index" % k))
        for i in idx[k]:
            if i in seen:
                errs.append(("index-shared-between-kinds", "index %d is both a %s and a %s record" % (i, seen[i], k)))
            seen[i] = k
            if i <= 0:
                errs.append(("non-positive-index", "%s record with index %d" % (k, i)))
    w = sorted(idx["wrappers"])
    if w != list(range(1, len(w) + 1)):
        errs.append(("wrapper-indices-not-1..N", "wrapper indices are %r..., expected 1..%d" % (w[:8], len(w))))
    for k in idbfmt.KINDS:
        for rec in db[k]:
            for path, target, v in idbfmt.iter_refs(k, rec):
                if v == 0:
                    continue
                if v not in idx[target]:
                    where = seen.get(v)
                    errs.append(("dangling:%s.%s" % (k, path), "%s %r (index %d): field %s = %d, which is %s" % (
                        k[:-1], rec.get("scoped_name") or rec["name"], rec["index"], path, v, "a %s record, expected %s" % (where, target) if where else "no record at all")))
    if errs:
        return errs
    F, W, T, E, S = idx["functions"], idx["wrappers"], idx["types"], idx["elements"], idx["make_seqs"]
    for f in db["functions"]:
        for fld in ("c_wrappers", "python_wrappers"):
            for wi in f[fld]:
                if W[wi]["function"] != f["index"]:
                    errs.append(("function-wrapper-mismatch", "function %r lists wrapper %d, whose function field is %d" % (f["scoped_name"], wi, W[wi]["function"])))
        if len(set(f["c_wrappers"])) != len(f["c_wrappers"]) or len(set(f["python_wrappers"])) != len(f["python_wrappers"]):
            errs.append(("wrapper-listed-twice", "function %r lists a wrapper twice" % f["scoped_name"]))
    for wr in db["wrappers"]:
        f = F.get(wr["function"])
        if f is None:
            errs.append(("wrapper-without-function", "wrapper %d has no function" % wr["index"]))
        elif wr["index"] not in f["c_wrappers"] and wr["index"] not in f["python_wrappers"]:
            errs.append(("wrapper-not-listed", "wrapper %d names function %r, which does not list it" % (wr["index"], f["scoped_name"])))
    for t in db["types"]:
        for fld in ("constructors", "methods", "casts"):
            for fi in t[fld]:
                if F[fi]["class_"] != t["index"]:
                    errs.append(("member-class-mismatch:" + fld, "type %r lists %s %r whose class is %d, not %d" % (t["scoped_name"], fld[:-1], F[fi]["scoped_name"], F[fi]["class_"], t["index"])))
        for ni in t["nested_types"]:
            if T[ni]["outer_class"] != t["index"]:
                errs.append(("nested-outer-mismatch", "type %r lists nested type %r whose outer class is %d" % (t["scoped_name"], T[ni]["scoped_name"], T[ni]["outer_class"])))
        for lst in ("constructors", "methods", "casts", "elements", "make_seqs", "nested_types"):
            if len(set(t[lst])) != len(t[lst]):
                errs.append(("listed-twice:" + lst, "type %r lists an entry of %s twice" % (t["scoped_name"], lst)))
    LINKS = ("getter", "setter", "has_function", "clear_function", "del_function", "length_function", "insert_function", "getkey_function")

    def ancestors(ti, acc):
        for dv in T[ti]["derivations"]:
            if dv["base"] in T and dv["base"] not in acc:
                acc.add(dv["base"])
                ancestors(dv["base"], acc)
        return acc
    for t in db["types"]:
        fam = ancestors(t["index"], {t["index"]})
        for ei in t["elements"]:
            for fld in LINKS:
                fi = E[ei].get(fld, 0)
                if fi and F[fi]["class_"] and F[fi]["class_"] not in fam:
                    errs.append(("element-link-foreign:" + fld, "element %r of type %r names %s %r, a member of type %d" % (
                        E[ei]["scoped_name"], t["scoped_name"], fld, F[fi]["scoped_name"], F[fi]["class_"])))
    for e in db["elements"]:
        want = (expect_elements or {}).get(e["scoped_name"])
        if want is None:
            continue
        for fld in LINKS:
            got = F[e[fld]]["name"] if e.get(fld, 0) else None
            if got != want.get(fld):
                errs.append(("element-link-wrong:" + fld, "element %r: %s is %r, declared as %r" % (e["scoped_name"], fld, got, want.get(fld))))
    for name in (expect_elements or {}):
        if not any(e["scoped_name"] == name for e in db["elements"]):
            errs.append(("element-missing", "no element record for the declared property %r" % name))
    un = [x["unique_name"] for x in db["wrappers"] if x["unique_name"]]
    dup = sorted({n for n in un if un.count(n) > 1})
    if dup:
        errs.append(("duplicate-unique-name", "unique name %r is used by %d wrappers" % (dup[0], un.count(dup[0]))))
    wn = [x["name"] for x in db["wrappers"] if x["name"]]
    dup = sorted({n for n in wn if wn.count(n) > 1})
    if dup:
        errs.append(("duplicate-wrapper-name", "wrapper name %r is used by %d wrappers" % (dup[0], wn.count(dup[0]))))
    return errs


def spell(db, T, ti, backend):
    t = T[ti]
    if t["atomic_token"] == 7:          # AT_string
        return "char const *"
    return t["true_name"]


def signature_tu(db, backend, code_file):
    T = idbfmt.by_index(db, "types")
    lines = ['#include "%s"' % code_file, ""]
    n = 0
    for w in db["wrappers"]:
        if not w["name"]:
            continue
        if backend == "-python":
            sig = "PyObject *(*vf_sig_%d)(PyObject *, PyObject *)" % w["index"]
        else:
            ret = spell(db, T, w["return_type"], backend) if w["return_type"] else "void"
            ps = ", ".join(spell(db, T, p["type"], backend) for p in w["parameters"])
            sig = "%s (*vf_sig_%d)(%s)" % (ret, w["index"], ps)
        lines.append("static %s = &%s;" % (sig, w["name"]))
        n += 1
    lines.append("void *vf_use[] = { %s };" % ", ".join("(void *)vf_sig_%d" % w["index"] for w in db["wrappers"] if w["name"]) if n else "")
    return "\n".join(lines) + "\n", n


def judge(case, ctx):
    be = case["backend"]
    flags = list(case["flags"])
    naming = {0: [], 1: ["-fnames"], 2: ["-fptrs"], 3: ["-fnames", "-fptrs"]}[case["naming"]]
    if "-true-names" in flags and case["naming"] in (1, 3):
        flags.remove("-true-names")          # rejected by interrogate by design (names would clash)
    avoid = set(ctx.disabled_tags)
    opts = {"impl": True, "avoid": avoid}
    if "-true-names" in flags:
        opts["no_overloads"] = True
    if case.get("literal"):
        lib = c03._Literal(case["literal"])
    else:
        lib = hgen.build(case["raw"], opts)
    names = c03.collision_names(case["collide"])
    extra_h = ""
    if names:
        extra_h = "BEGIN_PUBLISH\n" + "".join("int %s(int a0);\n" % n for n in names) + "END_PUBLISH\n"
    expect_el = None
    if not case.get("literal"):
        # a class with every flavour of property (sequence, mapping with a key sequence, has/clear, deleter); the links of its
        # element records are compared with the declarations
        ph, _, expect_el = hgen.props_header(case["naming"] + case["collide"] + len(flags))
        extra_h = ph + extra_h
    classes = ["be." + be, "naming.%d" % case["naming"]] + ["opt." + f for f in flags] + (["collide.%d" % len(names)] if names else [])
    with run.Scratch("c11") as d:
        bindgen.write_lib(d, lib, extra_h, "")
        r = igate.interrogate(d, lib.cmd_headers, opts=[be] + naming + flags, extra_search=lib.search)
        if r.signal or r.timed_out:
            return Outcome(ok=False, key="interrogate-died:%s" % r.kind(), classes=classes, detail="interrogate %s: %s" % (r.kind(), r.err[-400:].decode("latin-1")))
        if r.rc != 0:
            return Outcome(ok=True, classes=classes + ["interrogate.rejected"])
        db = igate.load_db(os.path.join(d, "l.in"))
        errs = closure_errors(db, expect_el)
        if errs:
            return Outcome(ok=False, key="closure:" + errs[0][0], classes=classes, detail="%s %s: %s (%d problems in all)" % (be, " ".join(naming + flags), errs[0][1], len(errs)))
        n_sig = 0
        if be in ("-c", "-python"):
            tu, n_sig = signature_tu(db, be, "l_igate.cxx")
            if n_sig:
                run.write(os.path.join(d, "sig.cxx"), tu)
                c = bindgen.cc(d, "sig.cxx", "sig.o", lib=lib, python=True)
                if c.rc != 0:
                    err = c.err.decode("latin-1")
                    in_generated = [l for l in err.splitlines() if re.search(r"l_igate\.cxx:\d+:\d+: error", l)]
                    in_sig = [l for l in err.splitlines() if re.search(r"sig\.cxx:\d+:\d+: error", l)]
                    if not in_sig:
                        # the generated code itself does not compile: that is C03's business, not a disagreement with the database
                        return Outcome(ok=True, classes=classes + ["code-does-not-compile", "cdnc:" + (bindgen.first_errors(err) or ["?"])[0]])
                    m = re.search(r"sig\.cxx:(\d+):", in_sig[0])
                    line = tu.splitlines()[int(m.group(1)) - 1] if m else ""
                    why = "undeclared" if "was not declared" in in_sig[0] else "type-mismatch"
                    return Outcome(ok=False, key="signature:%s:%s" % (be, why), classes=classes,
                                   detail="%s %s: the database describes a wrapper as\n  %s\nwhich the generated code does not define with that type:\n%s" % (
                                       be, " ".join(naming + flags), line, "\n".join(in_sig[:3])))
        nt = []
        rich = any(t["derivations"] or t["nested_types"] for t in db["types"])
        if len(db["wrappers"]) >= 10 and rich and (n_sig or be == "-python-native"):
            nt.append((be, tuple(flags), case["naming"], len(names), tuple(sorted(f for f in lib.features if f.startswith(("api.", "class."))))[:6]))
    return Outcome(ok=True, nontrivial=nt, classes=classes + (["sig-tu"] if n_sig else []),
                   sample={"backend": be, "options": naming + flags, "wrappers": len(db["wrappers"]), "functions": len(db["functions"]), "types": len(db["types"]),
                           "elements": len(db["elements"]), "make_seqs": len(db["make_seqs"]), "signatures_compiled": n_sig})


def worker(ctx, widx, stage, stats):
    f = core.hypothesis_search(None, ctx, _strategy(ctx), judge, ctx.pick(60, 800), ctx.seed * 1000 + widx, stats, time_budget=ctx.pick(90, 1200))
    return [f] if f else []
