"""C04 -- only the published API of the files named on the command line is exported.
The generator's model evaluates the statement's iff-rule; both directions are checked against the database."""
import os
import re

from hypothesis import strategies as st

from .. import core, hgen, igate, run
from ..core import Outcome

ID = "C04"
LEVEL = "exploration"
TECHNIQUE = "property-based testing (Hypothesis library generator with ground-truth model): the statement's export rule evaluated on the model vs the names in the database, both directions"
RULE = ("Hypothesis generates libraries (vf/hgen.py): classes with arbitrary interleavings of published/public/protected/private "
        "sections, nested enums, static/virtual/deleted members, constructors, fields, properties, sequences, operators, free "
        "functions, globals, enums and macros inside and outside BEGIN_PUBLISH regions, spread over the command-line file and "
        "headers found through the working directory, -I and -S; x {default, -promiscuous} x .N command files. Every declaration has a "
        "unique name. Non-trivial: a library with entities in >=4 of the classes {published, public-only, protected, private, deleted, "
        "-I-only, -S-only, cwd, forbidden-signature}; distinct by the multiset of (placement, visibility, kind).")
ASSUMPTIONS = ["the rule is the statement's: exported iff declared in a command-line/cwd file, visibility >= requested, not deleted, not excluded by a .N command, signature without private/protected types",
               "not decided by the statement and therefore not judged: destructors, implicit special members (C10), members of namespaces, typedefs, type records of classes from other files, up/downcast helpers",
               "names are read from the database with the independent codec"]
NONTRIVIAL_FLOOR = 15

NAME_RE = re.compile(r"(?<![A-Za-z0-9_])(?:get_|set_|get_num_)?(K|En|Ne|m|f|fn|g|MC|Td|p|s)(\d+)(?:[_sA-Za-z]\w*)?$")


def stages(ctx):
    return [("libs", 16)]


def _strategy(ctx):
    ncmd = st.lists(st.sampled_from(["ignoremember", "ignoretype", "ignoreinvolved", "ignorefile"]), max_size=2)
    return st.builds(lambda raw, prom, ncmds, pick: {"raw": raw, "promiscuous": prom, "ncmds": ncmds, "pick": pick},
                     hgen.raw_libraries(), st.booleans(), ncmd, st.integers(0, 1000))


def observed_ids(db):
    """entity ids whose name appears among the exported things of the database, per kind of evidence"""
    obs = {}

    def see(name, how):
        parts = name.split("::")
        last = parts[-1]
        m = NAME_RE.search(last)
        if not m:
            return
        obs.setdefault(int(m.group(2)), set()).add(how)
        if len(parts) >= 2:
            mc = re.match(r"K(\d+)$", parts[-2])
            if mc:
                obs.setdefault((int(mc.group(1)), int(m.group(2))), set()).add(how)
    for f in db["functions"]:
        nm = f["scoped_name"]
        last = nm.split("::")[-1]
        if last.startswith("~") or last.startswith("upcast_to_") or last.startswith("downcast_to_"):
            continue
        parts = nm.split("::")
        if len(parts) >= 2 and parts[-1] == parts[-2]:
            continue            # constructors are judged at wrapper level
        see(nm, "function")
    for e in db["elements"]:
        see(e["scoped_name"], "element")
    for m in db["manifests"]:
        see(m["name"], "manifest")
    for s in db["make_seqs"]:
        see(s["scoped_name"], "make_seq")
    for t in db["types"]:
        if t["enum_values"]:
            see(t["scoped_name"], "enum")
    return obs


def ctor_wrappers(db):
    """class id -> list of parameter-count of constructor wrappers (excluding copy constructors)"""
    T = {t["index"]: t for t in db["types"]}
    F = {f["index"]: f for f in db["functions"]}
    out = {}
    for w in db["wrappers"]:
        f = F.get(w["function"])
        if not f or not (f["flags"] & 0x100):
            continue
        m = re.search(r"K(\d+)$", f["scoped_name"].split("::")[-1])
        if m:
            out.setdefault(int(m.group(1)), []).append((len(w["parameters"]), bool(w["flags"] & 0x8)))
    return out


def expectations(lib, promiscuous, ignores):
    """-> (must, must_not) : dicts entity id -> reason"""
    minv = 1 if promiscuous else 0        # index into VIS: published=0, public=1
    must, must_not = {}, {}
    ign_member, ign_type, ign_file = ignores.get("member", set()), ignores.get("type", set()), ignores.get("file", set())

    def local(e):
        return e["file"] in ("main", "cwd")

    def visrank(e):
        v = e["vis"]
        if v == "public" and e.get("cls") is not None and e["cls"].get("inpub"):
            v = "published"       # inside a __begin_publish region "public:" means published (cppBison.yxx)
        return hgen.VIS.index(v)

    def _bad(t):
        return t.kind == "enum" and t.ref.get("cls") and t.ref["vis"] in ("protected", "private")

    def forbidden(e):
        """every overload involves a private/protected type (a single clean overload keeps the function)"""
        if e["kind"] in ("method", "function"):
            return all(any(_bad(t) for t in list(ov["params"]) + [ov["ret"]]) for ov in e["ovs"])
        return any(_bad(t) for t in hgen._types_of(e))

    def ov_exported(e, ov):
        v = ov.get("vis", e["vis"])
        if v == "public" and e.get("cls") is not None and e["cls"].get("inpub"):
            v = "published"
        return hgen.VIS.index(v) <= minv and not any(_bad(t) for t in list(ov["params"]) + [ov["ret"]])

    def involves(e, cls_ids):
        for t in hgen._types_of(e):
            if t.kind == "obj" and t.ref["id"] in cls_ids:
                return True
        return False

    for e in lib.entities:
        k = e["kind"]
        if k in ("class", "typedef", "dtor", "ctor", "property", "seq"):
            continue
        if e["name"].startswith("vf_") or e.get("op"):
            continue            # operators carry no entity id in their name: judged by C05
        cls = e.get("cls")
        in_ns = bool(lib.ns) and cls is not None
        if k == "method" and cls is not None and (e.get("overrides") or any(ov.get("vis", e["vis"]) != e["vis"] for ov in e["ovs"])
                                                   or any(x is not e and x["kind"] == "method" and x["name"] == e["name"] for x in cls["members"])):
            # per-overload visibility / overrides: judged per (class, name)
            if not local(cls):
                must_not[(cls["id"], e["id"] if not e.get("overrides") else e["overrides"][0])] = "class declared only in a -I/-S file"
                continue
            same = [x for x in cls["members"] if x["kind"] == "method" and x["name"] == e["name"]]
            any_exp = any(ov_exported(x, ov) for x in same for ov in x["ovs"])
            key = (cls["id"], e["id"] if not e.get("overrides") else e["overrides"][0])
            if not any_exp:
                must_not[key] = "no flavour of %s::%s has the requested visibility" % (cls["name"], e["name"])
            elif not (in_ns or cls["id"] in ign_type or e["name"] in ign_member or cls["file"] in ign_file or
                      any(involves(x, ignores.get("involved", set())) for x in same)):
                if e.get("overrides") or (e.get("virt") and cls["bases"]):
                    # an override need not be repeated when every flavour of the inherited method is published in the
                    # single, public, non-virtual base (it is reachable through the base)
                    b = cls["bases"]
                    inherited = [x for x in (b[0]["c"]["members"] if b else []) if x["kind"] == "method" and x["name"] == e["name"]]
                    if len(b) == 1 and b[0]["acc"] == "public" and not b[0]["virt"] and (not inherited or all(
                            (ov.get("vis", x["vis"]) == "published" or (ov.get("vis", x["vis"]) == "public" and b[0]["c"].get("inpub")))
                                for x in inherited for ov in x["ovs"])):
                        continue
                    if len(b) != 1 or not inherited:
                        continue        # deeper or multiple inheritance: not decided here
                must[key] = "a flavour of %s::%s is %s" % (cls["name"], e["name"], "published" if not minv else "public")
            continue
        if cls is not None:
            why_not = None
            if not local(cls):
                if k == "enum":
                    continue          # a nested enum of a foreign class is pulled in as a type when an exported signature uses it
                why_not = "class declared only in a -I/-S file"
            elif visrank(e) > minv:
                why_not = "member is %s" % e["vis"]
            elif forbidden(e):
                why_not = "signature involves a private/protected type"
            if why_not:
                must_not[(cls["id"], e.get("name_id", e["id"]))] = why_not
                continue
            if in_ns or cls["id"] in ign_type or e["name"] in ign_member or cls["file"] in ign_file or involves(e, ignores.get("involved", set())):
                continue            # not decided here
            if k == "method" and e.get("virt") and cls["bases"]:
                continue
            if k == "enum" and not e["values"]:
                continue
            if k == "field" and e["t"].kind == "obj" and e["t"].mode == 0:
                continue
            must[(cls["id"], e.get("name_id", e["id"]))] = "%s %s member of a command-line class" % (e["vis"], k)
        else:
            gv = 0 if e.get("inpub") else 1
            why_not = None
            if not local(e):
                why_not = "declared only in a -I/-S file"
            elif gv > minv:
                why_not = "declared outside BEGIN_PUBLISH (public only)"
            elif k == "function" and forbidden(e):
                why_not = "signature involves a private/protected type"
            if why_not:
                if k == "enum":
                    continue      # an enum used by an exported signature is pulled in as a type: not decided
                must_not[e["id"]] = why_not
                continue
            if e["file"] in ign_file or involves(e, ignores.get("involved", set())):
                continue
            if k == "global" and e["t"].kind == "cstr":
                pass
            must[e["id"]] = "global %s in a command-line file with sufficient visibility" % k
    return must, must_not


def with_copy_ctors(raw):
    """every other class declares its copy constructor, cycling through the four visibilities (and sometimes '= delete')"""
    raw = dict(raw)
    classes = []
    for i, c in enumerate(raw.get("classes", [])):
        c = dict(c)
        if i % 2 == 0:
            c["members"] = list(c["members"]) + [{"m": "ctor", "vis": (i // 2 + len(c["members"])) % 4, "params": [{"k": "obj", "c": i, "mode": 2}], "explicit": False,
                                                 "form": 2 if (i + len(c["members"])) % 7 == 3 else 0, "dv": 0}]
        classes.append(c)
    raw["classes"] = classes
    return raw


def judge(case, ctx):
    lib = hgen.build(with_copy_ctors(case["raw"]))
    prom = case["promiscuous"]
    ents = {e["id"]: e for e in lib.entities}
    # .N command file
    ignores = {}
    nlines = []
    methods = [e for e in lib.entities if e["kind"] == "method"]
    for i, cmd in enumerate(case["ncmds"]):
        pick = case["pick"] + i * 7
        if cmd == "ignoremember" and methods:
            m = methods[pick % len(methods)]
            nlines.append("ignoremember %s" % m["name"])
            ignores.setdefault("member", set()).add(m["name"])
        elif cmd == "ignoretype" and lib.classes:
            c = lib.classes[pick % len(lib.classes)]
            nlines.append("ignoretype %s" % c["qname"])
            ignores.setdefault("type", set()).add(c["id"])
        elif cmd == "ignoreinvolved" and lib.classes:
            c = lib.classes[pick % len(lib.classes)]
            nlines.append("ignoreinvolved %s" % c["name"])
            ignores.setdefault("involved", set()).add(c["id"])
        elif cmd == "ignorefile":
            nlines.append("ignorefile l_cwd.h")
            ignores.setdefault("file", set()).add("cwd")
    must, must_not = expectations(lib, prom, ignores)
    with run.Scratch("c04") as d:
        for f, txt in lib.files.items():
            run.write(os.path.join(d, f), txt)
        if nlines:
            run.write(os.path.join(d, "l.N"), "\n".join(nlines) + "\n")
        opts = ["-python-native", "-string"] + (["-promiscuous"] if prom else [])
        r = igate.interrogate(d, lib.cmd_headers, opts=opts, extra_search=lib.search)
        if r.abnormal or r.rc != 0:
            return Outcome(ok=False, key="igate:" + r.kind(),
                           detail="interrogate failed (%s) on a header g++ accepts: %s\n%s" % (r.kind(), r.err.decode("latin-1")[-500:], lib.files[lib.main]))
        db = igate.load_db(os.path.join(d, "l.in"))
    obs = observed_ids(db)
    classes = set()
    mn_ids = {(k[1] if isinstance(k, tuple) else k): v for k, v in must_not.items()}
    m_ids = {(k[1] if isinstance(k, tuple) else k) for k in must}
    for e in lib.entities:
        if e["id"] in mn_ids:
            r_ = mn_ids[e["id"]]
            classes.add("not:" + ("file" if "-I/-S" in r_ else r_.split()[-1] if "member is" in r_ else "forbidden" if "involves" in r_ else "public-only"))
        if e["id"] in m_ids:
            classes.add("must:" + e["kind"] + ":" + e["file"])
    for i, why in must_not.items():
        if i in obs:
            e = ents[i[1] if isinstance(i, tuple) else i]
            return Outcome(ok=False, key="leak:" + why.split()[0], classes=sorted(classes),
                           detail="%s %s (%s) is exported (%s) although: %s\noptions: %s, .N: %s\n%s" % (
                               e["kind"], e["name"], e["file"], sorted(obs[i]), why, "-promiscuous" if prom else "default", nlines,
                               "\n".join("== %s\n%s" % kv for kv in lib.files.items() if not kv[0].endswith("common.h"))))
    for i, why in must.items():
        if i not in obs:
            e = ents[i[1] if isinstance(i, tuple) else i]
            return Outcome(ok=False, key="missing:" + e["kind"], classes=sorted(classes),
                           detail="%s %s is not exported although it is a %s\noptions: %s, .N: %s\n%s" % (
                               e["kind"], e["name"], why, "-promiscuous" if prom else "default", nlines,
                               "\n".join("== %s\n%s" % kv for kv in lib.files.items() if not kv[0].endswith("common.h"))))
    # wrapper level: no callable variant may mention a private/protected nested type
    T = {t["index"]: t for t in db["types"]}
    hidden = {e["name"]: e for e in lib.entities if e["kind"] == "enum" and e.get("cls") and e["vis"] in ("protected", "private")}
    for w in db["wrappers"]:
        for ti in [w["return_type"]] + [p["type"] for p in w["parameters"]]:
            tn = T.get(ti, {}).get("true_name", "")
            for hn in hidden:
                if re.search(r"\b%s\b" % hn, tn):
                    return Outcome(ok=False, key="leak:wrapper-type", classes=sorted(classes),
                                   detail="a callable wrapper (function index %d) has a parameter/return of %s type %s\n%s" % (
                                       w["function"], hidden[hn]["vis"], tn, lib.files[lib.main]))
    # constructors, judged at wrapper level (the name of a constructor carries no entity id): a user-declared constructor is callable
    # from the scripting side iff it is declared with the requested visibility
    cw = ctor_wrappers(db)
    minv = 1 if prom else 0
    type_names = {t["scoped_name"] for t in db["types"] if t["flags"] & 1}
    for c in lib.classes:
        if c["file"] not in ("main", "cwd") or lib.ns or c["qname"] not in type_names:
            continue
        if c["id"] in ignores.get("type", set()) or c["file"] in ignores.get("file", set()):
            continue
        ctors = [m for m in c["members"] if m["kind"] == "ctor"]
        if not ctors:
            continue

        def cvis(m):
            v = m["vis"]
            if v == "public" and c.get("inpub"):
                v = "published"
            return hgen.VIS.index(v)
        got = cw.get(c["id"], [])
        copies = [m for m in ctors if len(m["params"]) == 1 and m["params"][0].kind == "obj" and m["params"][0].ref is c and m["params"][0].mode in (1, 2)]
        others = [m for m in ctors if m not in copies]
        classes.add("ctor.declared")
        if copies and (cvis(copies[0]) > minv or copies[0]["form"] == "delete") and any(iscopy for _, iscopy in got):
            classes.add("ctor.copy.hidden")
            return Outcome(ok=False, key="leak:copy-constructor", classes=sorted(classes),
                           detail="class %s declares its copy constructor %s%s, yet a copy-constructor wrapper is exported\noptions: %s\n%s" % (
                               c["name"], copies[0]["vis"], " = delete" if copies[0]["form"] == "delete" else "", "-promiscuous" if prom else "default", lib.files[lib.main]))
        if copies and (cvis(copies[0]) > minv or copies[0]["form"] == "delete"):
            classes.add("ctor.copy.hidden")
        allowed = {len(m["params"]) for m in others if cvis(m) <= minv and m["form"] != "delete"}
        for n, iscopy in got:
            if not iscopy and n not in allowed and not (n == 1 and copies):
                classes.add("ctor.hidden")
                return Outcome(ok=False, key="leak:constructor", classes=sorted(classes),
                               detail="class %s: a constructor wrapper with %d parameter(s) is exported, but no constructor with that many parameters is declared %s\noptions: %s\n%s" % (
                                   c["name"], n, "published" if not prom else "public", "-promiscuous" if prom else "default", lib.files[lib.main]))
        if any(cvis(m) > minv for m in others):
            classes.add("ctor.hidden")
    nt = []
    if len([c for c in classes if c.startswith("not:")]) + len({c.split(":")[2] for c in classes if c.startswith("must:")}) >= 4:
        nt.append(",".join(sorted(classes)) + ("|P" if prom else "|D"))
    return Outcome(ok=True, nontrivial=nt, classes=sorted(classes) + (["opt.promiscuous"] if prom else ["opt.default"]) + ["N." + c for c in case["ncmds"]],
                   sample={"main_header": lib.files[lib.main].split("\n")[:25], "promiscuous": prom, "must": len(must), "must_not": len(must_not)})


def worker(ctx, widx, stage, stats):
    f = core.hypothesis_search(None, ctx, _strategy(ctx), judge, ctx.pick(900, 12000), ctx.seed * 1000 + widx, stats,
                               time_budget=ctx.pick(90, 1000))
    return [f] if f else []
