"""C05 -- the database describes every exported entity truthfully.
Entity-by-entity comparison of the database with the generator's ground-truth model."""
import os
import re

from hypothesis import strategies as st

from .. import core, hgen, idbfmt, igate, run
from ..core import Outcome

ID = "C05"
LEVEL = "exploration"
TECHNIQUE = "property-based testing (Hypothesis library generator with ground-truth model): entity-by-entity comparison of database records with the model's facts"
RULE = ("Hypothesis generates libraries (vf/hgen.py) rich in inheritance, overloads, trailing defaults, static/const/virtual methods, "
        "constructors, operators, fields, properties, sequences, scoped/unscoped/nested enums, typedefs and documentation comments "
        "(attached, block, and decoys separated by a blank line). For every exported entity the database record is compared with the "
        "model: scoped name, kind flags, public bases with cast availability, nesting, roles, and per callable variant the ordered "
        "parameter names, types (structurally, through the database's own type chain), optional/this flags, return type and ownership. "
        "Non-trivial: an entity with >=1 of {base class, overload, default, property/sequence role, nesting, comment}; distinct by "
        "(kind, feature set).")
ASSUMPTIONS = ["index numbers and enumeration order are never compared", "run with -python-native -string (one wrapper per overload, defaults flagged optional)",
               "cast availability is judged only where C++ forces it: virtual base => upcast and no downcast; non-first base => upcast and downcast"]
NONTRIVIAL_FLOOR = 30

PRIM_DB = {"bool": ("bool",), "char": ("char",), "signed char": ("char", "signed"), "unsigned char": ("char", "unsigned"),
           "short": ("int", "short"), "unsigned short": ("int", "short", "unsigned"), "int": ("int",), "unsigned int": ("int", "unsigned"),
           "long": ("int", "long"), "unsigned long": ("int", "long", "unsigned"), "long long": ("int", "longlong"),
           "unsigned long long": ("int", "longlong", "unsigned"), "float": ("float",), "double": ("double",)}
ATOMIC = {1: "int", 2: "float", 3: "double", 4: "bool", 5: "char", 6: "void", 7: "string", 8: "int", 9: "null"}


def stages(ctx):
    return [("libs", 16)]


def _strategy(ctx):
    return st.builds(lambda raw: {"raw": raw}, hgen.raw_libraries())


def shape(T, idx, depth=0):
    """structural description of a database type"""
    t = T.get(idx)
    if t is None or depth > 8:
        return ("?",)
    fl = t["flags"]
    TF = idbfmt.TF
    if fl & TF["wrapped"]:
        inner = shape(T, t["wrapped_type"], depth + 1)
        if fl & TF["pointer"]:
            return ("ptr", inner)
        if fl & TF["const"]:
            return ("const", inner)
        return ("wrapped", inner)
    if fl & TF["atomic"]:
        base = ATOMIC.get(t["atomic_token"], "?")
        mods = []
        if fl & TF["short"]:
            mods.append("short")
        if fl & TF["long"]:
            mods.append("long")
        if fl & TF["longlong"]:
            mods.append("longlong")
        if fl & TF["signed"]:
            mods.append("signed")
        if fl & TF["unsigned"]:
            mods.append("unsigned")
        return ("atomic", base) + tuple(sorted(mods))
    if fl & TF["enum"]:
        return ("enum", t["scoped_name"])
    if fl & (TF["class_"] | TF["struct"] | TF["union"]):
        return ("class", t["scoped_name"])
    if fl & TF["typedef"]:
        return ("typedef", shape(T, t["wrapped_type"], depth + 1))
    return ("other", t["true_name"])


def expected_shape(t, role):
    """role: 'param' or 'ret'"""
    if t.kind == "void":
        return ("atomic", "void")
    if t.kind == "prim":
        d = PRIM_DB[t.name]
        return ("atomic", d[0]) + tuple(sorted(d[1:]))
    if t.kind == "enum":
        return ("enum", t.ref["qname"])
    if t.kind in ("cstr", "str"):
        return ("atomic", "string")
    cls = ("class", t.ref["qname"])
    if t.mode in (2, 4):
        return ("ptr", ("const", cls))
    return ("ptr", cls)


def judge(case, ctx):
    lib = hgen.build(case["raw"])
    with run.Scratch("c05") as d:
        for f, txt in lib.files.items():
            run.write(os.path.join(d, f), txt)
        r = igate.interrogate(d, lib.cmd_headers, opts=["-python-native", "-string"], extra_search=lib.search)
        if r.abnormal or r.rc != 0:
            return Outcome(ok=False, key="igate:" + r.kind(), detail="interrogate failed (%s): %s\n%s" % (r.kind(), r.err.decode("latin-1")[-400:], lib.files[lib.main]))
        db = igate.load_db(os.path.join(d, "l.in"))
    T = {t["index"]: t for t in db["types"]}
    F = {f["index"]: f for f in db["functions"]}
    W = {w["index"]: w for w in db["wrappers"]}
    E = {e["index"]: e for e in db["elements"]}
    S = {s["index"]: s for s in db["make_seqs"]}
    Fname = {}
    for f in db["functions"]:
        Fname.setdefault(f["scoped_name"], f)
    Tname = {t["scoped_name"]: t for t in db["types"] if not (t["flags"] & idbfmt.TF["wrapped"])}
    nt, classes = [], []
    hdr = "\n".join("== %s\n%s" % kv for kv in lib.files.items() if not kv[0].endswith("common.h"))

    def fail(key, msg):
        return Outcome(ok=False, key=key, detail=msg + "\n" + hdr, classes=classes)

    all_tokens = set()
    for e in lib.entities:
        for k in ("doc_token", "decoy_token"):
            if e.get(k):
                all_tokens.add(e[k])

    def check_comment(ent, comment, what):
        tok = ent.get("doc_token")
        words = set(re.findall(r"\b(?:DOC|DECOY)_E\d+\b", comment))
        if tok and tok not in words:
            return "%s %s: its documentation comment (%s) is not recorded; comment=%r" % (what, ent["name"], tok, comment[:80])
        for other in all_tokens:
            if other != tok and other in words:
                return "%s %s carries the comment %s that belongs to another declaration (or is separated by a blank line)" % (what, ent["name"], other)
        return None

    def ov_exported(ent, ov, cls):
        v = ov.get("vis", ent["vis"])
        if cls is not None and v == "public" and cls.get("inpub"):
            v = "published"
        if cls is not None and v != "published":
            return False
        return not any(tt.kind == "enum" and tt.ref.get("cls") and tt.ref["vis"] in ("protected", "private")
                       for tt in list(ov["params"]) + [ov["ret"]])

    def check_sigs(ent, f, cls, group=None):
        """wrappers of function f vs the exported overloads of ent (group: all same-named members of the class)"""
        ws = [W[i] for i in f["python_wrappers"] if i in W]
        feats = set()
        group = group or [ent]
        n_expected = sum(1 for x in group for ov in x["ovs"] if ov_exported(x, ov, cls))
        for ov in ent["ovs"]:
            if not ov_exported(ent, ov, cls):
                continue
            exp_params = []
            if cls is not None and not ent.get("static"):
                this_shape = ("ptr", ("const", ("class", cls["qname"]))) if ent.get("const") else ("ptr", ("class", cls["qname"]))
                exp_params.append(("this", this_shape, True, False))
            for p, n, dflt in zip(ov["params"], ov["pnames"], ov["defaults"]):
                exp_params.append((n, expected_shape(p, "param"), False, dflt is not None))
            exp_ret = expected_shape(ov["ret"], "ret")
            exp_owns = ov["ret"].kind == "obj" and ov["ret"].mode == 0
            found = None
            for w in ws:
                got = [(p["name"], shape(T, p["type"]), bool(p["flags"] & 2), bool(p["flags"] & 4)) for p in w["parameters"]]
                if got == exp_params:
                    found = w
                    break
            if found is None:
                return "%s: no callable variant with parameters %s; the database has %s" % (
                    ent["name"], exp_params, [[(p["name"], shape(T, p["type"]), p["flags"]) for p in w["parameters"]] for w in ws])
            got_ret = shape(T, found["return_type"]) if found["flags"] & idbfmt.WF["has_return"] else ("atomic", "void")
            if got_ret != exp_ret:
                return "%s: return type recorded as %s, declared %s" % (ent["name"], got_ret, exp_ret)
            if bool(found["flags"] & idbfmt.WF["caller_manages"]) != exp_owns:
                return "%s: caller_manages_return_value=%r but the function returns %s" % (
                    ent["name"], bool(found["flags"] & idbfmt.WF["caller_manages"]), ov["ret"].cpp())
            if any(d is not None for d in ov["defaults"]):
                feats.add("default")
        if len(ent["ovs"]) > 1:
            feats.add("overload")
        if len(ws) != n_expected:
            return "%s: %d callable variants recorded for %d exported overloads" % (ent["name"], len(ws), n_expected)
        return feats

    for c in lib.classes:
        if c["file"] not in ("main", "cwd") or lib.ns:
            continue
        t = Tname.get(c["qname"])
        def m_exported(m):
            if m["kind"] == "method":
                return any(ov_exported(m, ov, c) for ov in m["ovs"])
            return m["vis"] == "published" or (m["vis"] == "public" and c["inpub"])
        exported_members = [m for m in c["members"] if m_exported(m)]
        if t is None or not (t["flags"] & idbfmt.TF["fully_defined"]):
            if exported_members and any(m["kind"] in ("method", "field", "property") for m in exported_members):
                return fail("class-missing", "class %s has published members but no fully defined type record" % c["name"])
            continue
        classes.append("class")
        feats = set()
        want_kw = idbfmt.TF["class_"] if c["kw"] == "class" else idbfmt.TF["struct"]
        if not (t["flags"] & want_kw):
            return fail("class-kind", "%s is declared %s but its kind flags are %#x" % (c["name"], c["kw"], t["flags"]))
        if t["name"] != c["name"] or t["true_name"] != c["qname"]:
            return fail("class-name", "%s recorded with name %r true name %r" % (c["qname"], t["name"], t["true_name"]))
        msg = check_comment(c, t["comment"], "class")
        if msg:
            return fail("comment", msg)
        if c.get("doc_token"):
            feats.add("comment")
        # bases
        pub = [b for b in c["bases"] if b["acc"] == "public"]
        got_bases = [T.get(dv["base"], {}).get("scoped_name") for dv in t["derivations"]]
        if got_bases != [b["c"]["qname"] for b in pub]:
            return fail("bases", "%s: recorded base classes %s, accessible (public) bases are %s" % (c["name"], got_bases, [b["c"]["qname"] for b in pub]))
        for i, (b, dv) in enumerate(zip(pub, t["derivations"])):
            feats.add("base")
            if b["virt"]:
                if not (dv["flags"] & 1) or not (dv["flags"] & 4) or (dv["flags"] & 2):
                    return fail("casts", "%s: virtual base %s must have an upcast and an impossible downcast; flags=%d" % (c["name"], b["c"]["name"], dv["flags"]))
            elif c["bases"].index(b) > 0:
                if not (dv["flags"] & 1) or not (dv["flags"] & 2):
                    return fail("casts", "%s: non-first base %s needs up- and downcast functions; flags=%d" % (c["name"], b["c"]["name"], dv["flags"]))
            if dv["flags"] & 1:
                uf = F.get(dv["upcast"])
                if uf is None or not (uf["flags"] & idbfmt.FF["typecast"]):
                    return fail("casts", "%s: upcast to %s does not refer to a typecast function" % (c["name"], b["c"]["name"]))
        # members
        method_names = {F[i]["scoped_name"].split("::")[-1]: F[i] for i in t["methods"] if i in F}
        for m in exported_members:
            k = m["kind"]
            if k == "method":
                if any(tt.kind == "enum" and tt.ref.get("cls") and tt.ref["vis"] in ("protected", "private") for tt in hgen._types_of(m)):
                    continue
                f = method_names.get(m["name"])
                group = [x for x in c["members"] if x["kind"] == "method" and x["name"] == m["name"]]
                if f is None:
                    if m.get("overrides") or (m.get("virt") and c["bases"]):
                        b = c["bases"]
                        inherited = [x for x in (b[0]["c"]["members"] if b else []) if x["kind"] == "method" and x["name"] == m["name"]]
                        if len(b) == 1 and inherited and not (b[0]["acc"] == "public" and not b[0]["virt"] and all(
                                (ov.get("vis", x["vis"]) == "published" or (ov.get("vis", x["vis"]) == "public" and b[0]["c"].get("inpub")))
                                for x in inherited for ov in x["ovs"])):
                            return fail("override-missing", "%s::%s overrides a method whose inherited flavours are not all published, "
                                        "but it is not listed among the methods of %s" % (c["name"], m["name"], c["name"]))
                        continue
                    return fail("method-missing", "%s::%s is not listed among the methods of its class" % (c["name"], m["name"]))
                if f["scoped_name"] != c["qname"] + "::" + m["name"]:
                    return fail("scoped-name", "%s recorded as %r" % (m["name"], f["scoped_name"]))
                if not (f["flags"] & idbfmt.FF["method"]) or (f["flags"] & idbfmt.FF["global_"]):
                    return fail("role-flags", "%s::%s flags %#x: not marked as a method" % (c["name"], m["name"], f["flags"]))
                if bool(f["flags"] & idbfmt.FF["virtual"]) != bool(m.get("virt")):
                    return fail("role-flags", "%s::%s virtual flag is %r, declaration says %r" % (c["name"], m["name"], bool(f["flags"] & 2), m.get("virt")))
                if T.get(f["class_"], {}).get("scoped_name") != c["qname"]:
                    return fail("member-of", "%s::%s is recorded as a member of %r" % (c["name"], m["name"], T.get(f["class_"], {}).get("scoped_name")))
                res = check_sigs(m, f, c, group)
                if isinstance(res, str):
                    return fail("signature", res)
                if m.get("overrides"):
                    res = set(res) | {"override"}
                msg = check_comment(m, f["comment"], "method") if len(group) == 1 and ov_exported(m, m["ovs"][0], c) else None
                if msg:
                    return fail("comment", msg)
                mf = set(res)
                if m.get("doc_token"):
                    mf.add("comment")
                if m.get("role"):
                    mf.add("role")
                if m.get("op"):
                    mf.add("operator")
                if mf:
                    nt.append("method|" + ",".join(sorted(mf)) + ("|static" if m.get("static") else "") + ("|virtual" if m.get("virt") else ""))
            elif k == "field":
                el = [E[i] for i in t["elements"] if i in E and E[i]["name"] == m["name"]]
                if not el:
                    if m["t"].kind == "obj" and m["t"].mode == 0:
                        continue
                    return fail("field-missing", "published data member %s::%s has no element record" % (c["name"], m["name"]))
                e = el[0]
                if e["scoped_name"] != c["qname"] + "::" + m["name"]:
                    return fail("scoped-name", "%s recorded as %r" % (m["name"], e["scoped_name"]))
                has_setter = bool(e["flags"] & idbfmt.EF["has_setter"])
                if m["const"] and has_setter:
                    return fail("field-setter", "const data member %s::%s has a setter" % (c["name"], m["name"]))
                if not (e["flags"] & idbfmt.EF["has_getter"]):
                    return fail("field-getter", "data member %s::%s has no getter" % (c["name"], m["name"]))
                nt.append("field|%s%s" % ("static" if m["static"] else "inst", "|const" if m["const"] else ""))
            elif k == "property":
                el = [E[i] for i in t["elements"] if i in E and E[i]["name"] == m["name"]]
                if not el:
                    return fail("property-missing", "MAKE_PROPERTY %s::%s has no element record" % (c["name"], m["name"]))
                e = el[0]
                gf = F.get(e["getter"], {}).get("scoped_name", "")
                if gf.split("::")[-1] != m["getter"]["name"]:
                    return fail("property-getter", "property %s: getter recorded as %r, declared %s" % (m["name"], gf, m["getter"]["name"]))
                sf = F.get(e["setter"], {}).get("scoped_name", "") if e["flags"] & idbfmt.EF["has_setter"] else ""
                if (m["setter"]["name"] if m["setter"] else "") != sf.split("::")[-1]:
                    return fail("property-setter", "property %s: setter recorded as %r, declared %s" % (m["name"], sf, m["setter"] and m["setter"]["name"]))
                nt.append("property|%s" % ("rw" if m["setter"] else "ro"))
            elif k == "seq":
                sq = [S[i] for i in t["make_seqs"] if i in S and S[i]["name"] == m["name"]]
                if not sq:
                    return fail("seq-missing", "MAKE_SEQ %s::%s has no record" % (c["name"], m["name"]))
                s_ = sq[0]
                if F.get(s_["length_getter"], {}).get("scoped_name", "").split("::")[-1] != m["num"]["name"] or \
                   F.get(s_["element_getter"], {}).get("scoped_name", "").split("::")[-1] != m["get"]["name"]:
                    return fail("seq-getters", "sequence %s: getters recorded as %r / %r" % (
                        m["name"], F.get(s_["length_getter"], {}).get("scoped_name"), F.get(s_["element_getter"], {}).get("scoped_name")))
                nt.append("seq")
            elif k == "enum":
                et = Tname.get(m["qname"])
                if et is None:
                    return fail("enum-missing", "published nested enum %s has no type record" % m["qname"])
                if T.get(et["outer_class"], {}).get("scoped_name") != c["qname"] or not (et["flags"] & idbfmt.TF["nested"]):
                    return fail("nesting", "nested enum %s: outer class recorded as %r, nested flag %r" % (
                        m["qname"], T.get(et["outer_class"], {}).get("scoped_name"), bool(et["flags"] & idbfmt.TF["nested"])))
                if [v["name"] for v in et["enum_values"]] != [n for n, _ in m["values"]]:
                    return fail("enum-values", "enum %s: value names %s, declared %s" % (m["qname"], [v["name"] for v in et["enum_values"]], m["values"]))
                if bool(et["flags"] & idbfmt.TF["scoped_enum"]) != m["scoped"]:
                    return fail("enum-scoped", "enum %s scoped flag wrong" % m["qname"])
                want = [(m["name"] + "::" + n) if m["scoped"] else n for n, _ in m["values"]]
                got = [v["scoped_name"].split("::", len(c["qname"].split("::")))[-1] for v in et["enum_values"]]
                if got != want:
                    return fail("enum-scoped-names", "enum %s: value scoped names %s" % (m["qname"], [v["scoped_name"] for v in et["enum_values"]]))
                nt.append("enum|nested|%s" % ("scoped" if m["scoped"] else "plain"))
        if feats:
            nt.append("class|" + ",".join(sorted(feats)))
    for fn in lib.funcs:
        if fn["file"] not in ("main", "cwd") or not fn["inpub"]:
            continue
        f = Fname.get(fn["name"])
        if f is None:
            return fail("function-missing", "published function %s has no record" % fn["name"])
        if not (f["flags"] & idbfmt.FF["global_"]) or (f["flags"] & idbfmt.FF["method"]) or f["class_"] != 0:
            return fail("role-flags", "free function %s flags %#x class %d" % (fn["name"], f["flags"], f["class_"]))
        res = check_sigs(fn, f, None)
        if isinstance(res, str):
            return fail("signature", res)
        msg = check_comment(fn, f["comment"], "function")
        if msg:
            return fail("comment", msg)
        ff = set(res)
        if fn.get("doc_token"):
            ff.add("comment")
        if ff:
            nt.append("function|" + ",".join(sorted(ff)))
        classes.append("function")
    for e in lib.enums:
        if e["file"] not in ("main", "cwd") or not e["inpub"]:
            continue
        et = Tname.get(e["qname"])
        if et is None:
            return fail("enum-missing", "published enum %s has no type record" % e["name"])
        if [v["name"] for v in et["enum_values"]] != [n for n, _ in e["values"]] or bool(et["flags"] & idbfmt.TF["scoped_enum"]) != e["scoped"]:
            return fail("enum-values", "enum %s recorded with values %s scoped=%r" % (e["name"], [v["name"] for v in et["enum_values"]], bool(et["flags"] & idbfmt.TF["scoped_enum"])))
        classes.append("enum")
    for td in lib.typedefs:
        tt = Tname.get(td["name"])
        if tt is not None:
            if not (tt["flags"] & idbfmt.TF["typedef"]) or T.get(tt["wrapped_type"], {}).get("scoped_name") != td["target"]["qname"]:
                return fail("typedef-target", "typedef %s recorded as wrapping %r" % (td["name"], T.get(tt["wrapped_type"], {}).get("scoped_name")))
            nt.append("typedef")
    return Outcome(ok=True, nontrivial=nt, classes=classes + sorted(lib.features),
                   sample={"main_header": lib.files[lib.main].split("\n")[:30]})


def worker(ctx, widx, stage, stats):
    f = core.hypothesis_search(None, ctx, _strategy(ctx), judge, ctx.pick(700, 10000), ctx.seed * 1000 + widx, stats,
                               time_budget=ctx.pick(90, 1000))
    return [f] if f else []
