"""C07 -- recorded constants equal the compiler's values.

Three-way differential: exact Python evaluator (construction-guided generator), g++ (prints every
constant), interrogate (database: enum values, manifest int values, array sizes)."""
import itertools
import os

from hypothesis import strategies as st

from .. import cexpr, core, igate, run
from ..core import Outcome

ID = "C07"
LEVEL = "exploration"
TECHNIQUE = "property-based differential testing (Hypothesis): generated integer constant expressions, 3-way oracle model/g++/interrogate"
RULE = ("Hypothesis generates batches of enums / integer macros / array bounds / const variables whose initialisers come "
        "from the integer-constant-expression grammar (vf/cexpr.py, every intermediate in int range, no UB); thorough also "
        "enumerates all depth<=2 expressions over a boundary operand set. An expression is non-trivial if it has >=2 "
        "operators of different precedence classes, or a cast, or a non-decimal/char literal, or a reference; distinct by "
        "(feature set, carrier kind).")
ASSUMPTIONS = ["g++ 12 -std=gnu++17 is the reference compiler; the Python evaluator must agree with it on every batch (else the check aborts as broken)",
               "only expressions whose operands and results fit in int are generated (the statement's domain)",
               "a value is 'reported as unevaluated' when the manifest lacks has_int_value or the enumerator is omitted from the database"]
NONTRIVIAL_FLOOR = 50


def stages(ctx):
    st_ = [("random", 16)]
    if ctx.thorough:
        st_.append(("enum2", 16))
    return st_


# ---- case strategy --------------------------------------------------------------------------------

def _enum_item():
    enumerator = st.one_of(st.none(), cexpr.expressions(max_leaves=8))
    return st.builds(lambda scoped, es: {"k": "enum", "scoped": scoped, "es": es},
                     st.sampled_from([0, 0, 0, 1, 2]), st.lists(enumerator, min_size=1, max_size=6))


def _simple(kind, **kw):
    return st.builds(lambda e, v: {"k": kind, "e": e, "v": v}, cexpr.expressions(max_leaves=10, **kw), st.integers(0, 7 if kind == "constvar" else 3))


ITEM = st.one_of(_enum_item(), _enum_item(), _simple("macro"), _simple("array"), _simple("constvar"))


def case_strategy(ctx):
    n = ctx.pick(40, 60)
    return st.builds(lambda items: {"items": items}, st.lists(ITEM, min_size=1, max_size=n))


# ---- rendering ----------------------------------------------------------------------------------

def strip(node, off, counter):
    """Replace constructs whose feature tag is switched off (known findings), counting them."""
    if not off:
        return node
    k = node[0]
    if k == "lit":
        n = list(node)
        if "literal." + n[2] in off:
            counter["literal." + n[2]] = counter.get("literal." + n[2], 0) + 1
            n[2] = "dec"
        if n[3] and "literal.suffix" in off:
            n[3] = ""
        return n
    if k == "chr":
        if "literal.char." + node[2] in off or "literal.char" in off:
            counter["literal.char"] = counter.get("literal.char", 0) + 1
            return ["lit", node[1] % 128, "dec", ""]
        return node
    if k in ("bool", "ref"):
        return node
    if k == "par":
        return ["par", strip(node[1], off, counter)]
    kids = [strip(c, off, counter) if isinstance(c, list) else c for c in node]
    tag = None
    if k == "un":
        tag = "op.u" + node[1]
    elif k == "bin":
        tag = "op." + node[1]
    elif k == "tern":
        tag = "op.?:"
    elif k == "comma":
        tag = "op.,"
    elif k == "cast":
        tag = "cast.to." + node[2].replace(" ", "_")
        if "cast." + node[1] in off:
            tag = "cast." + node[1]
    if tag in off:
        counter[tag] = counter.get(tag, 0) + 1
        return next(c for c in kids[1:] if isinstance(c, list))
    return kids


def build(case, off=frozenset()):
    """-> (header text, expectations [(kind, name, value, feats, carrier)], excluded counter)"""
    env = []      # referencable constants: (name, value, type)
    lines = ["#include <verif_prelude.h>", "BEGIN_PUBLISH"]
    exp = []
    excl = {}
    for i, it in enumerate(case["items"]):
        if it["k"] == "enum":
            name = "En%d" % i
            head = ["enum", "enum class", "enum struct"][it["scoped"]]
            local = []       # in-enum environment
            parts = []
            nxt = 0
            prev_t = "i"
            scoped = it["scoped"] != 0
            for j, e in enumerate(it["es"]):
                en = "en%d_%d" % (i, j)
                feats = set()
                if e is None:
                    if nxt > cexpr.INT_MAX:
                        break
                    val, t = nxt, prev_t
                    parts.append(en)
                    feats.add("implicit_increment")
                else:
                    # in a scoped enum earlier enumerators are visible unqualified inside the braces
                    lenv = env + local
                    e2 = cexpr.repair(strip(e, off, excl), lenv)
                    val, t = cexpr.evaluate(e2, lenv)
                    t = t if t in ("u", "l", "ul") else "i"
                    parts.append("%s = %s" % (en, cexpr.render(e2, lenv)[0]))
                    feats = cexpr.features(e2)
                    feats.add("nops%d" % min(cexpr.n_ops(e2), 3))
                local.append((en, val, t))
                exp.append(("enum", name + "::" + en if scoped else en, val, sorted(feats), name))
                nxt, prev_t = val + 1, t
            lines.append("%s %s { %s };" % (head, name, ", ".join(parts)))
            if not scoped:
                env.extend((n, v, "i") for n, v, _ in local)
            continue
        e2 = cexpr.repair(strip(it["e"], off, excl), env)
        val, t = cexpr.evaluate(e2, env)
        text = cexpr.render(e2, env)[0]
        feats = cexpr.features(e2)
        feats.add("nops%d" % min(cexpr.n_ops(e2), 3))
        if it["k"] == "macro":
            name = "MC%d" % i
            body = text if it["v"] == 0 and e2[0] in ("lit", "chr", "bool") else "(" + text + ")"
            lines.append("#define %s %s" % (name, body))
            exp.append(("macro", name, val, sorted(feats), name))
            env.append((name, val, t))
        elif it["k"] == "array":
            if not (1 <= val <= 1 << 24):
                e2 = ["bin", "+", ["bin", "&", ["par", e2], ["lit", 1023, "hex", ""]], ["lit", 1, "dec", ""]]
                try:
                    val, t = cexpr.evaluate(e2, env)
                except cexpr.Invalid:
                    e2 = ["lit", 1 + i % 9, "dec", ""]
                    val, t = cexpr.evaluate(e2, env)
                text = cexpr.render(e2, env)[0]
                feats = cexpr.features(e2)
            name = "arr%d" % i
            lines.append("extern int %s[%s];" % (name, text))
            exp.append(("array", name, val, sorted(feats), name))
            # a twin declaration: the same operands under another operator (array types with equal operands but different
            # operators must stay different types)
            if it["v"] % 2 == 1 and e2[0] in ("bin", "un"):
                ops = cexpr.BIN_OPS if e2[0] == "bin" else ["-", "~", "+", "!"]
                e3 = list(e2)
                e3[1] = ops[(ops.index(e2[1]) + 1 + it["v"]) % len(ops)] if e2[1] in ops else ops[0]
                try:
                    e3 = cexpr.repair(e3, env)
                    v3, _ = cexpr.evaluate(e3, env)
                except cexpr.Invalid:
                    v3 = 0
                if 1 <= v3 <= 1 << 24 and e3[1] != e2[1]:
                    f3 = cexpr.features(e3)
                    f3.add("twin_operator")
                    lines.append("extern int %s_t[%s];" % (name, cexpr.render(e3, env)[0]))
                    exp.append(("array", name + "_t", v3, sorted(f3), name + "_t"))
        else:
            name = "cv%d" % i
            kw = ["const int", "constexpr int", "static const int", "const long", "const bool", "const unsigned char", "const short", "const unsigned int"][it["v"]]
            # the initialiser is converted to the variable's type: that value is what later uses see
            if kw == "const bool":
                val, vt = (1 if val else 0), "i"
            elif kw == "const unsigned char":
                val, vt = val & 0xff, "i"
            elif kw == "const short":
                val, vt = ((val + 0x8000) & 0xffff) - 0x8000, "i"
            elif kw == "const unsigned int":
                val, vt = val & 0xffffffff, "u"
            elif "long" in kw:
                vt = "l"
            else:
                val, vt = ((val + 0x80000000) & 0xffffffff) - 0x80000000, "i"
            if it["v"] >= 4:
                feats.add("constvar.converting")
            lines.append("%s %s = %s;" % (kw, name, text))
            exp.append(("constvar", name, val, sorted(feats), name))
            env.append((name, val, vt))
    lines.append("END_PUBLISH")
    return "\n".join(lines) + "\n", exp, excl


def gxx_values(d, exp):
    """compile+run a driver printing every constant; returns list of ints (or raises Broken)"""
    body = ['#include "l.h"', "#include <cstdio>", "int main() {"]
    for kind, name, val, feats, carrier in exp:
        if kind == "array":
            body.append('  printf("%%lld\\n", (long long)(sizeof(%s)/sizeof(%s[0])));' % (name, name))
        else:
            body.append('  printf("%%lld\\n", (long long)(%s));' % name)
    body.append("  return 0; }")
    run.write(os.path.join(d, "drv.cxx"), "\n".join(body) + "\n")
    r = igate.gxx(d, ["-O0", "-I", igate.SYS, "-I", ".", "drv.cxx", "-o", "drv"])
    if r.rc != 0:
        raise core.Broken("g++ rejected a generated C07 batch (generator unsound):\n%s\n%s" % (
            r.err.decode()[:1500], open(os.path.join(d, "l.h")).read()[:3000]))
    r2 = run.run([os.path.join(d, "drv")], cwd=d)
    if r2.rc != 0:
        raise core.Broken("C07 driver failed")
    return [int(x) for x in r2.out.split()]


def db_values(db):
    enums, macros, arrays = {}, {}, {}
    for t in db["types"]:
        for ev in t["enum_values"]:
            enums[ev["scoped_name"]] = ev["value"]
        if "array_size" in t:
            arrays.setdefault(t["index"], t["array_size"])
    for m in db["manifests"]:
        macros[m["name"]] = m["int_value"] if m["flags"] & 4 else None
    arr_by_name = {}
    for e in db["elements"]:
        if e["type"] in arrays:
            arr_by_name[e["name"]] = arrays[e["type"]]
    return enums, macros, arr_by_name


def judge(case, ctx):
    off = frozenset(ctx.disabled_tags)
    header, exp, excl = build(case, off)
    if not exp:
        return Outcome(discard=True)
    with run.Scratch("c07") as d:
        run.write(os.path.join(d, "l.h"), header)
        gv = gxx_values(d, exp)
        for (kind, name, val, feats, carrier), g in zip(exp, gv):
            if g != val:
                raise core.Broken("C07 model/g++ disagreement on %s: model %d g++ %d\n%s" % (name, val, g, header))
        r = igate.interrogate(d, ["l.h"], opts=["-c", "-fnames"])
        if r.abnormal or r.rc != 0 or not os.path.exists(os.path.join(d, "l.in")):
            return Outcome(ok=False, key="crash:" + r.kind(),
                           detail="interrogate ended with %s on a valid header; stderr: %s\n%s" % (
                               r.kind(), r.err.decode("latin-1")[-400:], header))
        enums, macros, arrays = db_values(igate.load_db(os.path.join(d, "l.in")))
    nontriv, classes, bad = [], [], []
    truncated = set()
    for kind, name, val, feats, carrier in exp:
        classes.extend(feats)
        classes.append("carrier." + kind)
        fs = set(feats)
        prec_classes = {cexpr.PREC.get(f[3:], None) for f in fs if f.startswith("op.") and f[3:] in cexpr.PREC}
        nt = (len(prec_classes) >= 2 or any(f.startswith("cast.") for f in fs) or "ref" in fs or
              any(f.startswith("literal.") and f not in ("literal.dec",) for f in fs))
        if kind == "enum":
            got = enums.get(name, "absent")
            if got == "absent":
                truncated.add(carrier)
                classes.append("unevaluated.enum")
                continue
        elif kind == "macro":
            got = macros.get(name, "absent")
            if got is None or got == "absent":
                classes.append("unevaluated.macro")
                continue
        elif kind == "array":
            got = arrays.get(name, "absent")
            if got == "absent" or got == -1:
                classes.append("unevaluated.array")
                continue
        else:
            continue
        if got != val:
            bad.append((kind, name, val, got, feats))
        elif nt:
            nontriv.append((kind, tuple(feats)))
    if bad:
        kind, name, val, got, feats = bad[0]
        return Outcome(ok=False, key="value:" + ",".join(feats),
                       detail="%s %s: compiler value %d, database value %s (features %s)\n%s" % (
                           kind, name, val, got, feats, header), classes=classes)
    out = Outcome(ok=True, nontrivial=nontriv, classes=classes,
                  sample={"header_excerpt": header.split("\n")[2:7], "n_constants": len(exp)})
    for k, v in excl.items():
        out.classes.extend(["excluded." + k] * v)
    return out


# ---- exhaustive small-scope enumeration (thorough) ----------------------------------------------------

SMALL_OPERANDS = [0, 1, -1, 2, 7, cexpr.INT_MAX, cexpr.INT_MIN + 1]


def _opnd(v):
    return ["lit", v, "dec", ""] if v >= 0 else ["un", "-", ["lit", -v, "dec", ""]]


def enum2_exprs():
    ops = cexpr.BIN_OPS
    for a, b in itertools.product(SMALL_OPERANDS, repeat=2):
        for op in ops:
            yield ["bin", op, _opnd(a), _opnd(b)]
    for a, b, c in itertools.product([0, 1, -1, 2, 7], repeat=3):
        for o1 in ops:
            for o2 in ops:
                yield ["bin", o2, ["bin", o1, _opnd(a), _opnd(b)], _opnd(c)]      # text: a o1 b o2 c (by precedence)
                yield ["bin", o1, _opnd(a), ["bin", o2, _opnd(b), _opnd(c)]]
    for a in SMALL_OPERANDS:
        for u in ["-", "+", "~", "!"]:
            yield ["un", u, _opnd(a)]
            for u2 in ["-", "~", "!"]:
                yield ["un", u, ["un", u2, _opnd(a)]]
    for c, a, b in itertools.product([0, 1, -1], [0, 2, 7], [1, -1, cexpr.INT_MAX]):
        yield ["tern", _opnd(c), _opnd(a), _opnd(b)]


def worker(ctx, widx, stage, stats):
    if stage == "random":
        per = ctx.pick(90, 900)
        f = core.hypothesis_search(None, ctx, case_strategy(ctx), judge, per, ctx.seed * 1000 + widx, stats,
                                   time_budget=ctx.pick(100, 1500))
        return [f] if f else []
    # exhaustive slice: worker widx takes every 16th chunk
    off = frozenset(ctx.disabled_tags)
    valid = []
    seen = set()
    for e in enum2_exprs():
        if cexpr.features(e) & off:
            continue
        try:
            cexpr.evaluate(e, [])
        except cexpr.Invalid:
            continue
        txt = cexpr.render(e, [])[0]
        if txt in seen:
            continue
        seen.add(txt)
        valid.append(e)
    chunks = [valid[i:i + 400] for i in range(0, len(valid), 400)]
    fails = []
    for ci, chunk in enumerate(chunks):
        if ci % 16 != widx:
            continue
        case = {"items": [{"k": "enum", "scoped": 0, "es": [e]} for e in chunk]}
        out = judge(case, ctx)
        if core.account(stats, out, ctx, None):
            # bisect to one expression
            for e in chunk:
                c1 = {"items": [{"k": "enum", "scoped": 0, "es": [e]}]}
                o1 = judge(c1, ctx)
                if not o1.ok:
                    fails.append(dict(case=c1, detail=o1.detail, key=o1.key))
                    break
            break
    stats.extra["exhaustive_depth2_expressions"] = sum(len(c) for i, c in enumerate(chunks) if i % 16 == widx)
    return fails
