"""C09 -- conditional inclusion keeps exactly the groups a conforming preprocessor keeps.
Differential against gcc -E: surviving unique markers; skipped groups must have no effect."""
import copy
import itertools
import os
import re

from hypothesis import strategies as st

from .. import condgen, core, igate, run
from ..core import Outcome

ID = "C09"
LEVEL = "exploration"
ENGINE = "hypothesis + exhaustive enumeration"
TECHNIQUE = "small-scope exhaustive enumeration of directive skeletons x truth assignments plus Hypothesis-generated deeper programs, differential against gcc -E"
RULE = ("Exhaustive slice: every well-nested sequence over {#if*, #elif*, #else, #endif, marker} of at most L lines (L=8 quick, 10 "
        "thorough; depth<=3; no adjacent markers) x every truth assignment, with spellings (#if/#ifdef/#ifndef, #elif/#elifdef/"
        "#elifndef, defined(), __has_include, arithmetic) chosen by a hash of the program. Random slice: Hypothesis trees of depth<=5 "
        "with side-effect lines (#define/#undef/#error/#warning/#include of a missing file) in skipped groups and cexpr "
        "controlling expressions. Non-trivial: nesting>=2, or an #elif* chain of length>=2, or a side effect in a skipped group; "
        "distinct by skeleton shape x truth assignment.")
ASSUMPTIONS = ["gcc 12 -E -P -undef -x c++ -std=c++2b decides which groups survive",
               "controlling expressions keep every intermediate inside int (the statement's domain); expressions gcc diagnoses are discarded",
               "exhaustive: true refers to skeleton shape x truth assignment up to the stated length, not to condition spellings"]
NONTRIVIAL_FLOOR = 50

GCC = ["gcc", "-E", "-P", "-undef", "-x", "c++", "-std=c++2b"]
MK = re.compile(rb"\bmk_\w+")


def stages(ctx):
    return [("exhaustive", 8), ("random", 8)]


def run_batch(progs, off):
    """progs: list of (pid, tree).  -> (expected markers or None, result of parse_file, renders, gcc stderr)"""
    renders = [condgen.render_program(t, pid, off) for pid, t in progs]
    src = condgen.PRELUDE + "\n".join("\n".join(r.lines) for r in renders) + "\n"
    with run.Scratch("c09") as d:
        run.write(os.path.join(d, "prog.c"), src)
        run.write(os.path.join(d, "inc", "exists.h"), "/* empty */\n")
        g = run.run(GCC + ["-I", "inc", "prog.c"], cwd=d, timeout=30)
        if g.rc != 0:
            return None, None, renders, src, g
        exp = MK.findall(g.out)
        r = igate.parse_file(d, ["prog.c"], opts=["-E", "-Sinc"], std=False, timeout=30)
    return exp, r, renders, src, g


def compare(exp, r, renders, src, g):
    """-> None if fine else (key, detail, offending pid or None)"""
    if r.abnormal:
        return ("crash:" + r.kind(), "parse_file -E ended with %s: %s" % (r.kind(), r.err.decode("latin-1")[-300:]), None)
    if r.rc != 0:
        return ("rejected", "parse_file -E failed (rc=%d) on a program gcc accepts: %s" % (r.rc, r.err.decode("latin-1")[-400:]), None)
    got = MK.findall(r.out)
    if got != exp:
        se, sg = set(exp), set(got)
        diff = sorted(se ^ sg) or [x for x, y in zip(exp, got) if x != y]
        name = diff[0].decode()
        pid = name.split("_")[1]
        kind = "group wrongly skipped" if diff[0] in se else "group wrongly kept"
        return ("markers", "%s: marker %s (gcc keeps %d markers, parse_file %d)" % (kind, name, len(exp), len(got)), pid)
    err = r.err
    for rd in renders:
        for t in rd.errtexts:
            tb = t.encode()
            if tb in err and tb not in g.err:
                return ("skipped-diagnostic", "a directive inside a skipped group was acted upon: %s appears in the diagnostics" % t, rd.pid)
    return None


def judge(case, ctx):
    off = frozenset(ctx.disabled_tags)
    progs = [("p%d" % i, t) for i, t in enumerate(case["progs"])]
    exp, r, renders, src, g = run_batch(progs, off)
    if exp is None:
        return Outcome(discard=True)
    classes = sorted(set().union(*[rd.tags for rd in renders]))
    bad = compare(exp, r, renders, src, g)
    if bad:
        key, detail, pid = bad
        text = src
        if pid is not None:
            rd = [x for x in renders if x.pid == pid][0]
            text = condgen.PRELUDE + "\n".join(rd.lines)
        return Outcome(ok=False, key=key, detail=detail + "\n--- program:\n" + text, classes=classes)
    nt = []
    for (pid, t), rd in zip(progs, renders):
        if rd.tags & {"cond.nest2", "cond.nest3", "cond.nest4", "cond.elif_chain", "cond.side_effect_in_skipped"}:
            nt.append(repr(condgen.shape_key(t)))
    return Outcome(ok=True, nontrivial=nt, classes=classes,
                   sample={"program": renders[0].lines[:14], "kept_markers_model": renders[0].kept[:6]})


def _strategy(ctx):
    return st.builds(lambda ps: {"progs": ps}, st.lists(condgen.trees(), min_size=1, max_size=ctx.pick(12, 20)))


def _instantiate(tree, truths, salt):
    t = copy.deepcopy(tree)
    slots = condgen.cond_slots(t)
    for i, (s, tv) in enumerate(zip(slots, truths)):
        s["truth"] = tv
        h = (salt * 31 + i * 7) % 97
        first = s["form"] == "if"
        s["form"] = (["if", "ifdef", "ifndef", "if"] if first else ["elif", "elifdef", "elifndef", "elif"])[h % 4]
        s["sp"] = h
    return t


def exhaustive_programs(maxlen):
    n = 0
    for L in range(1, maxlen + 1):
        for tree in condgen.skeletons(L):
            k = len(condgen.cond_slots(tree))
            for truths in itertools.product([0, 1], repeat=k):
                yield n, _instantiate(tree, truths, n)
                n += 1


def worker(ctx, widx, stage, stats):
    off = frozenset(ctx.disabled_tags)
    if stage == "random":
        per = ctx.pick(60, 1200)
        f = core.hypothesis_search(None, ctx, _strategy(ctx), judge, per, ctx.seed * 1000 + widx, stats,
                                   time_budget=ctx.pick(80, 1000))
        return [f] if f else []
    maxlen = ctx.pick(8, 10)
    nworkers = 8
    batch, total, fails = [], 0, []

    def flush():
        nonlocal batch
        if not batch:
            return None
        progs = [("e%d" % n, t) for n, t in batch]
        exp, r, renders, src, g = run_batch(progs, off)
        if exp is None:
            raise core.Broken("gcc rejected an enumerated C09 batch: " + g.err.decode("latin-1")[:400])
        bad = compare(exp, r, renders, src, g)
        stats.evaluations += len(batch)
        for (n, t), rd in zip(batch, renders):
            for c in rd.tags:
                stats.classes[c] += 1
            if rd.tags & {"cond.nest2", "cond.nest3", "cond.elif_chain"}:
                stats.nontrivial.add(core.short_hash(repr(condgen.shape_key(t))))
        if len(stats.samples) < 2:
            stats.samples.append({"program": renders[-1].lines, "kept_markers_model": renders[-1].kept})
        res = None
        if bad:
            key, detail, pid = bad
            cand = [t for n, t in batch if pid is None or "e%d" % n == pid]
            case = {"progs": cand[:1] if pid is not None else [t for n, t in batch]}
            res = dict(case=case, detail=detail, key=key)
        batch = []
        return res

    for n, t in exhaustive_programs(maxlen):
        if (n // 400) % nworkers != widx:
            continue
        batch.append((n, t))
        total += 1
        if len(batch) >= 400:
            f = flush()
            if f:
                fails.append(f)
                break
    if not fails:
        f = flush()
        if f:
            fails.append(f)
    stats.extra["exhaustive_programs"] = total
    stats.extra["exhaustive_max_lines"] = maxlen
    stats.extra["exhaustive"] = True
    return fails
