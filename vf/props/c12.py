"""C12 -- database files round-trip exactly; older 3.x minors stay readable; truncated / wrong-version /
identifier-mismatched files raise the error flag and are never half-merged or crashed on."""
import glob
import os

from hypothesis import strategies as st

from .. import build, core, dbgen, idb, idbfmt, igate, run
from ..core import Outcome

ID = "C12"
LEVEL = "exploration"
ENGINE = "hypothesis (+ libFuzzer on the reader in the thorough tier)"
TECHNIQUE = "property-based round-trip and fault testing (Hypothesis model databases + independent Python codec of the .in format; prefix enumeration in forked children)"
RULE = ("Hypothesis generates model databases (all six record kinds, random flag bits, valid cross references, adversarial strings: "
        "empty, spaces, newlines, quotes, digits that look like lengths, bytes >= 0x80) serialised by an independent Python codec in "
        "minor formats 3.0-3.3; each is loaded by the real library (ASan/UBSan build), re-written and compared byte for byte with "
        "the 3.3 serialisation of the model; string queries are compared with the model; ~200 prefixes per file (every k-th byte and "
        "the last 64) and header mutations are loaded in forked children. Real databases written by interrogate go through the "
        "same checks. Non-trivial: a database with >=1 adversarial string and >=3 record kinds, or a prefix case cut inside a record; "
        "distinct by (minor, string-class set, kinds present).")
ASSUMPTIONS = ["vf/idbfmt.py is an independent implementation of the format (validated on every run against files written by interrogate: parse∘serialise must be the identity)",
               "model databases are referentially closed (the reader dereferences constructor/destructor links while loading)",
               "a file-identifier mismatch may load the complete file as long as the error flag is raised (allowed by the statement); a strict subset of the records is a violation"]
NONTRIVIAL_FLOOR = 20


def stages(ctx):
    return [("model", 12), ("real", 4)]


def _strategy(ctx):
    return st.builds(lambda db, minor, pstep, first: {"db": db, "minor": minor, "pstep": pstep, "first": first},
                     dbgen.model_dbs(), st.integers(0, 3), st.integers(5, 23), st.booleans())


def _str_classes(db):
    cl = set()

    def see(s):
        if s == "":
            cl.add("empty")
        if " " in s:
            cl.add("space")
        if "\n" in s:
            cl.add("newline")
        if '"' in s or "'" in s:
            cl.add("quote")
        if any(ord(c) >= 0x80 for c in s):
            cl.add("high")
        if s[:1].isdigit():
            cl.add("digits")
    for kind in idbfmt.KINDS:
        for r in db[kind]:
            for k, v in r.items():
                if isinstance(v, str):
                    see(v)
            for a in r.get("alt_names", []):
                see(a)
            for e in r.get("enum_values", []):
                see(e["name"]); see(e["comment"])
            for p in r.get("parameters", []):
                see(p["name"])
    return cl


QUERY_STRINGS = {
    "t": [("interrogate_type_name", "name"), ("interrogate_type_scoped_name", "scoped_name"), ("interrogate_type_true_name", "true_name"),
          ("interrogate_type_comment", "comment")],
    "f": [("interrogate_function_name", "name"), ("interrogate_function_scoped_name", "scoped_name"),
          ("interrogate_function_comment", "comment"), ("interrogate_function_prototype", "prototype")],
    "w": [("interrogate_wrapper_name", "name"), ("interrogate_wrapper_comment", "comment"), ("interrogate_wrapper_unique_name", "unique_name")],
    "m": [("interrogate_manifest_name", "name"), ("interrogate_manifest_definition", "definition")],
    "e": [("interrogate_element_name", "name"), ("interrogate_element_scoped_name", "scoped_name"), ("interrogate_element_comment", "comment")],
    "s": [("interrogate_make_seq_seq_name", "name"), ("interrogate_make_seq_scoped_name", "scoped_name")],
}
KIND_OF = {"t": "types", "f": "functions", "w": "wrappers", "m": "manifests", "e": "elements", "s": "make_seqs"}


def check_file(d, data, expect_bytes, model, lib_fields, pstep, first_path, classes):
    """Load `data` with the real library and apply the C12 oracle.  Returns (key, detail) or None."""
    path = os.path.join(d, "f.in")
    run.write(path, data)
    out = os.path.join(d, "out.in")
    fid, lib, libhash, module = lib_fields
    cmds = ["req " + path, "digest", "flag", "dump",
            "write %s %d %s %s %s" % (out, fid, idb.hexs(lib), idb.hexs(libhash), idb.hexs(module)),
            "prefixes %s %d %s" % (path, pstep, first_path or "")]
    r = idb.run_script(cmds, timeout=300)
    if r.crashed:
        last = [l for l in r.lines if l.strip()][-1:] or [""]
        return ("crash:" + r.res.kind(), "idbtool died (%s) after '%s': %s" % (r.res.kind(), last[0][:80], r.res.err.decode("latin-1")[-600:]))
    flags = [l for l in r.lines if l.startswith("FLAG ")]
    if flags[0] != "FLAG 0":
        return ("flag-on-valid", "error flag raised for a valid file: " + r.res.err.decode("latin-1")[-300:])
    got = open(out, "rb").read() if os.path.exists(out) else b""
    if got != expect_bytes:
        i = 0
        while i < min(len(got), len(expect_bytes)) and got[i] == expect_bytes[i]:
            i += 1
        return ("roundtrip-bytes", "write(load(file)) differs from the expected 3.3 bytes at offset %d: expected %r, got %r" % (
            i, expect_bytes[max(0, i - 30):i + 30], got[max(0, i - 30):i + 30]))
    dumps = idb.dumps_in(r.lines)
    if model is not None and dumps:
        dump = dumps[0]
        for (kind, idx), rec in dump["rec"].items():
            mrec = idbfmt.by_index(model, KIND_OF[kind]).get(idx)
            if mrec is None:
                return ("query-phantom", "query interface reached %s index %d which the file does not contain" % (kind, idx))
            for fn, fld in QUERY_STRINGS[kind]:
                if fn in rec and rec[fn] != mrec[fld]:
                    return ("query-string", "%s(%d) = %r, file says %r" % (fn, idx, rec[fn], mrec[fld]))
    # ---- prefixes ----
    pf = [l.split() for l in r.lines if l.startswith("PFX ")]
    full = [p for p in pf if p[1] == "-1"]
    base = [p for p in pf if p[1] == "-2"]
    if not full or not base or "CRASH" in full[0] or "CRASH" in base[0]:
        return ("prefix-harness", "prefix scan did not complete: %s" % (pf[-3:],))
    full_d, base_d = full[0][3], base[0][3]
    if full[0][2] != "0":
        return ("flag-on-valid", "error flag raised when loading the full file after a good file")
    n_mid = 0
    for p in pf:
        L = int(p[1])
        if L < 0:
            continue
        if p[2] == "CRASH":
            return ("prefix-crash", "loading the first %d bytes of the file kills the process (signal/exit %s)" % (L, p[3]))
        flag, dg = p[2], p[3]
        if flag == "1" and dg in (base_d, full_d):
            n_mid += 1
            continue
        if flag == "0" and dg == full_d:
            continue
        return ("prefix-halfmerge" if flag == "1" else "prefix-silent",
                "prefix of %d bytes (of %d): error flag %s, database content is neither the previous state nor the complete file" % (L, len(data), flag))
    classes.append("prefixes")
    return None


def judge(case, ctx):
    if case.get("real"):
        return judge_real(case, ctx)
    model, minor = case["db"], case["minor"]
    data = idbfmt.serialise(model, minor=minor)
    # self-check of the codec
    if idbfmt.serialise(idbfmt.parse(data), minor=minor) != data:
        raise core.Broken("idbfmt parse/serialise is not the identity on a model database")
    expect = idbfmt.serialise(dbgen.normalise_loaded(model, minor), minor=3)
    classes = ["minor.%d" % minor] + ["str." + c for c in sorted(_str_classes(model))] + \
              ["kind." + k for k in idbfmt.KINDS if model[k]]
    with run.Scratch("c12") as d:
        first = None
        if case.get("first"):
            first = os.path.join(d, "first.in")
            other = {"file_identifier": 7, "major": 3, "minor": 3, "library_name": "libfirst", "library_hash_name": "", "module_name": "m",
                     "functions": [], "wrappers": [], "manifests": [], "elements": [], "make_seqs": [],
                     "types": [dict(index=1, name="FirstT", alt_names=[], flags=idbfmt.TF["global_"] | idbfmt.TF["fully_defined"],
                                    scoped_name="FirstT", true_name="FirstT", outer_class=0, atomic_token=0, wrapped_type=0,
                                    constructors=[], destructor=0, elements=[], methods=[], make_seqs=[], casts=[], derivations=[],
                                    enum_values=[], nested_types=[], comment="first")]}
            run.write(first, idbfmt.serialise(other))
            classes.append("after_good_file")
        norm = dbgen.normalise_loaded(model, minor)
        bad = check_file(d, data, expect, norm, (model["file_identifier"], model["library_name"], model["library_hash_name"],
                                                  model["module_name"]), case["pstep"], first, classes)
        if bad is None:
            bad = header_mutations(d, model, data)
    if bad:
        return Outcome(ok=False, key=bad[0], detail=bad[1] + "\n(minor %d, %d bytes)" % (minor, len(data)), classes=classes)
    nk = sum(1 for k in idbfmt.KINDS if model[k])
    nt = []
    if _str_classes(model) and nk >= 3:
        nt.append("%d|%s|%s" % (minor, ",".join(sorted(_str_classes(model))), ",".join(k for k in idbfmt.KINDS if model[k])))
    return Outcome(ok=True, nontrivial=nt, classes=classes,
                   sample={"minor": minor, "bytes": len(data), "head": data[:160].decode("latin-1")})


def header_mutations(d, model, data):
    """wrong major / newer minor / identifier mismatch: flag raised, nothing (or everything) merged"""
    lines = data.split(b"\n", 2)
    cmds = ["digest"]
    muts = []
    for maj, mnr in ((2, 3), (4, 0), (3, 4), (3, 99)):
        p = os.path.join(d, "mut_%d_%d.in" % (maj, mnr))
        run.write(p, lines[0] + b"\n" + ("%d %d\n" % (maj, mnr)).encode() + lines[2])
        muts.append((maj, mnr, p))
    outs = []
    for maj, mnr, p in muts:
        r = idb.run_script(["digest", "req " + p, "digest", "flag"], timeout=60)
        if r.crashed:
            return ("version-crash", "loading a file with version %d.%d kills the process: %s" % (maj, mnr, r.res.err.decode("latin-1")[-300:]))
        dg = [l for l in r.lines if l.startswith("DIGEST")]
        fl = [l for l in r.lines if l.startswith("FLAG")]
        if fl[0] != "FLAG 1":
            return ("version-noflag", "a file with version %d.%d loads without raising the error flag" % (maj, mnr))
        if dg[0] != dg[1]:
            return ("version-merged", "a file with version %d.%d raised the flag but changed the database" % (maj, mnr))
    p = os.path.join(d, "f.in")
    mid = model["file_identifier"] + 1 if model["file_identifier"] < 2 ** 31 - 1 else 5
    r = idb.run_script(["digest", "reqmod %s %d %s" % (p, mid, "libx"), "digest", "flag"], timeout=60)
    r2 = idb.run_script(["req " + p, "digest"], timeout=60)
    if r.crashed or r2.crashed:
        return ("ident-crash", "identifier-mismatch load kills the process: " + r.res.err.decode("latin-1")[-300:])
    dg = [l for l in r.lines if l.startswith("DIGEST")]
    fl = [l for l in r.lines if l.startswith("FLAG")]
    full = [l for l in r2.lines if l.startswith("DIGEST")][0]
    if fl[0] != "FLAG 1":
        return ("ident-noflag", "file-identifier mismatch is not reported through the error flag")
    if dg[1] not in (dg[0], full):
        return ("ident-halfmerge", "file-identifier mismatch left a partial database")
    return None


# ---- real databases ---------------------------------------------------------------------------------

def real_headers():
    hs = sorted(glob.glob(os.path.join(build.REPO, "tests", "interrogatedb", "*.h")))
    hs += sorted(glob.glob(os.path.join(build.VERIF, "corpus", "headers", "*.h")))
    return hs


def judge_real(case, ctx):
    hdr = case["header"]
    opts = case["opts"]
    with run.Scratch("c12r") as d:
        r = igate.interrogate(d, [hdr], opts=opts)
        p = os.path.join(d, "l.in")
        if r.rc != 0 or not os.path.exists(p):
            return Outcome(discard=True)
        data = open(p, "rb").read()
        db = idbfmt.parse(data)
        if idbfmt.serialise(db) != data:
            raise core.Broken("idbfmt does not reproduce a file written by interrogate (%s)" % hdr)
        classes = ["real"]
        bad = check_file(d, data, data, db, (db["file_identifier"], db["library_name"], db["library_hash_name"], db["module_name"]),
                         case.get("pstep", 9), None, classes)
    if bad:
        return Outcome(ok=False, key=bad[0], detail=bad[1] + "\n(real database of %s %s)" % (hdr, opts), classes=classes)
    return Outcome(ok=True, nontrivial=["real|%s|%s" % (os.path.basename(hdr), " ".join(opts))], classes=classes,
                   sample={"header": hdr, "opts": opts, "bytes": len(data)})


def worker(ctx, widx, stage, stats):
    if stage == "model":
        f = core.hypothesis_search(None, ctx, _strategy(ctx), judge, ctx.pick(22, 400), ctx.seed * 1000 + widx, stats,
                                   time_budget=ctx.pick(90, 1200))
        return [f] if f else []
    fails = []
    combos = [(h, o) for h in real_headers() for o in (["-c", "-fnames", "-promiscuous"], ["-python-native"], ["-python", "-promiscuous"])]
    for i, (h, o) in enumerate(combos):
        if i % 4 != widx:
            continue
        case = {"real": True, "header": h, "opts": o, "pstep": 5 if ctx.thorough else 11}
        out = judge_real(case, ctx)
        if core.account(stats, out, ctx, case):
            fails.append(dict(case=case, detail=out.detail, key=out.key))
            break
    return fails
