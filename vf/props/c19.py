"""C19 -- a failed or incomplete output write is reported by a non-zero exit status.
Fault enumeration: for each generated case the k-th write/writev/close on the output file is made to
fail (LD_PRELOAD shim), for every k up to the number of operations of a fault-free run."""
import hashlib
import os

from hypothesis import strategies as st

from .. import aux, core, hgen, igate, run
from ..core import Outcome

ID = "C19"
LEVEL = "fault_enumeration"
ENGINE = "hypothesis + fault enumeration (LD_PRELOAD)"
TECHNIQUE = "fault injection with enumeration of the failing write/close position (LD_PRELOAD shim) over Hypothesis-generated libraries and output channels"
RULE = ("Hypothesis generates a library (vf/hgen.py), an output channel {interrogate -oc, -od, -oh; interrogate_module -oc} and a fault "
        "mode {ENOSPC, EIO, short write; persistent from the k-th operation on, or transient: only the k-th operation fails}; the main header carries "
        "documentation comments of several KB so that the output needs many write operations, some starting inside a string; a fault-free run under the shim counts the write/writev/close operations N on that file; then "
        "the k-th operation (and all later ones) is failed for k=1..N (quick: up to 24 evenly spread k incl. first and last; thorough: "
        "every k). Static faults: missing directory, target is a directory, /dev/full. Non-trivial: a fault delivered after the first "
        "successful write (k>=2) or on close; distinct by (channel, fault kind, k class first/middle/last/close).")
ASSUMPTIONS = ["the shim logs every delivered fault; only runs with a delivered fault are judged", "short writes are not faults: the run must succeed with identical output (transparency control)",
               "read-only targets cannot be exercised as root (permissions are not enforced); covered by 'target is a directory' and /dev/full"]
NONTRIVIAL_FLOOR = 6

CHANNELS = ["oc", "od", "oh", "module_oc"]


def stages(ctx):
    return [("faults", 16)]


def _strategy(ctx):
    return st.builds(lambda raw, ch, mode, backend: {"raw": raw, "channel": ch, "mode": mode, "backend": backend},
                     hgen.raw_libraries(max_classes=4, max_funcs=4), st.sampled_from(CHANNELS), st.sampled_from(["enospc", "eio", "short", "enospc-once", "eio-once"]),
                     st.sampled_from(["-python-native", "-c", "-python"]))


def _sha(path):
    try:
        with open(path, "rb") as f:
            return hashlib.sha256(f.read()).hexdigest()
    except OSError:
        return None


def _cmd(case, d, lib, target_override=None):
    ch = case["channel"]
    outs = {"oc": os.path.join(d, "out", "l_igate.cxx"), "od": os.path.join(d, "out", "l.in"), "oh": os.path.join(d, "out", "l.txt"),
            "module_oc": os.path.join(d, "out", "m_module.cxx")}
    tgt = target_override or outs[ch]
    if ch == "module_oc":
        import vf.build as build
        argv = [build.tool("interrogate_module"), "-oc", tgt, "-module", "m", "-library", "m", "-python-native", os.path.join(d, "pre", "l.in")]
    else:
        import vf.build as build
        o = dict(outs)
        o[ch] = tgt
        argv = [build.tool("interrogate"), "-oc", o["oc"], "-od", o["od"], "-oh", o["oh"], "-module", "m", "-library", "l",
                case["backend"], "-string", "-fnames"] + igate.std_args() + lib.search + lib.cmd_headers
    return argv, tgt, outs


def judge(case, ctx):
    lib = hgen.build(case["raw"])
    shim = aux.ensure_so("faultfs")
    quick = not ctx.thorough
    classes, nt = [], []
    n_runs = 0
    with run.Scratch("c19") as d:
        for f, txt in lib.files.items():
            if f == lib.main:
                # long documentation comments: strings of several KB in the database and the code file, so that the output
                # needs several write operations and some of them start inside a string
                pad = "".join("BEGIN_PUBLISH\n// %s\nint vf_long_doc_%d(int a);\nEND_PUBLISH\n" % (("documentation text %d " % j) * (60 + 45 * j), j) for j in range(5))
                i = txt.rstrip().rfind("#endif")
                txt = txt[:i] + pad + txt[i:]
            run.write(os.path.join(d, f), txt)
        os.makedirs(os.path.join(d, "out"))
        os.makedirs(os.path.join(d, "pre"))
        if case["channel"] == "module_oc":
            r0 = igate.interrogate(d, lib.cmd_headers, opts=["-python-native", "-string"], extra_search=lib.search, oc="pre/l_igate.cxx", od="pre/l.in")
            if r0.rc != 0:
                return Outcome(discard=True)
        argv, tgt, outs = _cmd(case, d, lib)
        base = run.base_env({"SOURCE_DATE_EPOCH": "1700000000"})
        # plain run (no shim)
        r = run.run(argv, cwd=d, env=base, timeout=60)
        if r.rc != 0:
            return Outcome(discard=True)
        plain = _sha(tgt)
        # counting run under the shim
        log = os.path.join(d, "fault.log")
        env = dict(base, LD_PRELOAD=shim, FAULTFS_TARGET=os.path.basename(tgt), FAULTFS_K="0", FAULTFS_LOG=log)
        r = run.run(argv, cwd=d, env=env, timeout=60)
        n_runs += 2
        if r.rc != 0 or _sha(tgt) != plain:
            raise core.Broken("faultfs shim is not transparent (rc=%s)" % r.rc)
        ops = [l.split() for l in open(log).read().split("\n") if l.startswith("OP ")] if os.path.exists(log) else []
        N = len(ops)
        if N == 0:
            raise core.Broken("faultfs saw no operation on %s" % tgt)
        ks = list(range(1, N + 1))
        if quick and N > 24:
            step = (N - 1) / 23.0
            ks = sorted(set([1, 2, N - 1, N] + [1 + int(round(i * step)) for i in range(24)]))
            ks = [k for k in ks if 1 <= k <= N]
        for k in ks:
            if os.path.exists(log):
                os.unlink(log)
            for p in outs.values():
                if os.path.exists(p):
                    os.unlink(p)
            env = dict(base, LD_PRELOAD=shim, FAULTFS_TARGET=os.path.basename(tgt), FAULTFS_K=str(k), FAULTFS_MODE=case["mode"].split("-")[0], FAULTFS_LOG=log,
                       FAULTFS_ONCE="1" if case["mode"].endswith("-once") else "0")
            r = run.run(argv, cwd=d, env=env, timeout=60)
            n_runs += 1
            lg = open(log).read() if os.path.exists(log) else ""
            if r.abnormal:
                return Outcome(ok=False, key="crash:" + r.kind(), detail="tool died (%s) when operation %d/%d on %s failed" % (r.kind(), k, N, case["channel"]))
            kind = ops[k - 1][2]
            kcls = "close" if kind == "close" else ("first" if k == 1 else ("last" if k >= N - 1 else "middle"))
            if case["mode"] == "short":
                if "SHORT" in lg:
                    if r.rc != 0 or _sha(tgt) != plain:
                        return Outcome(ok=False, key="short-write", detail="a short write (operation %d/%d on %s) was not completed: rc=%d, output %s" % (
                            k, N, case["channel"], r.rc, "differs" if _sha(tgt) != plain else "same"))
                    classes.append("short.ok")
                continue
            if "FAULT" not in lg:
                continue
            classes.append("%s.%s.%s" % (case["channel"], case["mode"], kcls))
            if r.rc == 0:
                size = os.path.getsize(tgt) if os.path.exists(tgt) else -1
                return Outcome(ok=False, key="silent:%s" % case["channel"], classes=classes,
                               detail="%s of %s %s: the %s operation %d of %d on the output file failed with %s, exit status is 0 (file size now %d, complete size %d)" % (
                                   case["channel"], "interrogate_module" if case["channel"] == "module_oc" else "interrogate", case["backend"],
                                   kind, k, N, case["mode"].upper(), size, len(open(tgt, "rb").read()) if False else -1))
            if k >= 2 or kind == "close":
                nt.append("%s|%s|%s" % (case["channel"], case["mode"], kcls))
        # static faults
        for what, path in (("missing-directory", os.path.join(d, "nonexistent", "x.out")), ("is-directory", os.path.join(d, "out")),
                           ("dev-full", "/dev/full")):
            argv2, tgt2, _ = _cmd(case, d, lib, target_override=path)
            r = run.run(argv2, cwd=d, env=base, timeout=60)
            n_runs += 1
            classes.append("static.%s.%s" % (case["channel"], what))
            if r.abnormal:
                return Outcome(ok=False, key="crash:" + r.kind(), detail="tool died (%s) with output target %s" % (r.kind(), what))
            if r.rc == 0:
                return Outcome(ok=False, key="silent-static:%s:%s" % (case["channel"], what), classes=classes,
                               detail="%s written to a target that cannot hold it (%s: %s) and the exit status is 0" % (case["channel"], what, path))
            nt.append("%s|static|%s" % (case["channel"], what))
    out = Outcome(ok=True, nontrivial=nt, classes=classes,
                  sample={"channel": case["channel"], "mode": case["mode"], "backend": case["backend"], "operations": N, "k_tried": ks[:30]})
    out.sample["runs"] = n_runs
    return out


def worker(ctx, widx, stage, stats):
    f = core.hypothesis_search(None, ctx, _strategy(ctx), judge, ctx.pick(40, 100), ctx.seed * 1000 + widx, stats,
                               time_budget=ctx.pick(90, 900))
    stats.extra["exhaustive_k"] = bool(ctx.thorough)
    return [f] if f else []
