"""C18 -- floating-point literals keep their value.
(a) library level: rapidcheck harness on pdtoa / pstrtod against glibc's correctly rounded strtod
    (C locale and a comma-decimal locale), exhaustive float32 in the thorough tier;
(b) end to end: Hypothesis-generated literals as default arguments through interrogate; the text
    written to the generated code / database prototype is compared bitwise by g++ with the original."""
import os
import re
import struct

from hypothesis import strategies as st

from .. import aux, build, core, igate, run
from ..core import Outcome

ID = "C18"
LEVEL = "exploration"
ENGINE = "rapidcheck + hypothesis + exhaustive enumeration"
TECHNIQUE = "rapidcheck round-trip/differential properties on pdtoa and pstrtod against correctly rounded strtod; Hypothesis literals end-to-end through interrogate judged bitwise by g++"
RULE = ("rapidcheck draws stratified doubles (all exponents, subnormals, powers of 2 and 10 +-3ulp, float32 values, short decimals) "
        "for strtod(pdtoa(x))==x and decimal spellings (1-40 digits, fraction-only, leading/trailing zeros, exponents -330..330) for "
        "pstrtod(s)==strtod(s), the latter under the C locale and under a locale whose decimal point is ','; the thorough tier "
        "enumerates all 2^32 float32 patterns. End to end: literals as default arguments, compared bitwise after g++ compiles the "
        "printed text. Non-trivial: >=16 significant digits or an exponent (library), a literal that is not exactly representable "
        "(end to end); distinct by bit pattern / spelling.")
ASSUMPTIONS = ["glibc strtod_l in the C locale is correctly rounded", "g++ 12 assigns the correctly rounded double to a decimal literal",
               "the comma locale is compiled by localedef from a hand-written source (none is installed)",
               "float-suffixed literals are compared after conversion to float"]
NONTRIVIAL_FLOOR = 1000


def stages(ctx):
    s = [("fmt", 6), ("parse", 3), ("parse_comma", 3), ("e2e", 4)]
    if ctx.thorough:
        s.append(("f32", 16))
    return s


def _harness():
    return aux.ensure_harness("rc_num", "std", libs=("dtoolbase",), extra=("-lrapidcheck",))


def _parse_out(out, stats):
    case = None
    why = ""
    for line in out.decode("latin-1").split("\n"):
        if line.startswith("STAT evaluations"):
            stats.evaluations += int(line.split()[2])
        elif line.startswith("STAT nontrivial"):
            stats.extra["_nt"] = stats.extra.get("_nt", 0) + int(line.split()[2])
        elif line.startswith("SAMPLE ") and len(stats.samples) < 3:
            stats.samples.append(line[7:])
        elif line.startswith("FAIL "):
            why = line[5:]
        elif line.startswith("CASE "):
            parts = line.split(" ", 2)
            case = {"mode": parts[1], "v": parts[2]}
    return case, why


def judge(case, ctx):
    if case.get("mode") == "e2e":
        return judge_e2e(case, ctx)
    h = _harness()
    env = run.base_env()
    if case.get("locale") == "comma":
        env.update({"LOCPATH": aux.ensure_locale(), "LC_ALL": "xx_COMMA", "RC_NUM_LOCALE": "1"})
    r = run.run([h, "one-" + case["mode"], case["v"]], env=env, timeout=30)
    if r.rc == 0:
        return Outcome(ok=True)
    return Outcome(ok=False, key="lib:" + case["mode"], detail=r.out.decode("latin-1")[-400:] + r.err.decode("latin-1")[-300:])


# ---- end to end ----------------------------------------------------------------------------------

def _literal():
    digits = st.text("0123456789", min_size=1, max_size=18)
    frac = st.text("0123456789", min_size=0, max_size=18)
    exp = st.one_of(st.just(""), st.just(""), st.builds(lambda s, e: "e%s%d" % (s, e), st.sampled_from(["", "+", "-"]),
                                                       st.integers(0, 300)))
    suff = st.sampled_from(["", "", "", "f", "F", ""])
    a = st.builds(lambda d, f, e, s: {"t": (d.lstrip("0") or "0") + "." + f + e, "s": s}, digits, frac, exp, suff)
    special = st.sampled_from(["0.3", "0.1", "0.7", "5e-324", "1.7976931348623157e308", "2.2250738585072014e-308",
                                "4.9406564584124654e-324", "0.75", "1e22", "1e23", "8.5", "123456789.123456789",
                                "9007199254740993.0", "0.30000000000000004", "1.0000000000000002", "3.4028235e38"]).map(
        lambda t: {"t": t, "s": ""})
    fromfloat = st.floats(allow_nan=False, allow_infinity=False, width=64).map(lambda x: {"t": repr(abs(x)) if "." in repr(abs(x)) or "e" in repr(abs(x)) else repr(abs(x)) + ".0", "s": ""})
    return st.one_of(a, a, special, fromfloat)


def _e2e_strategy(ctx):
    return st.builds(lambda ls: {"mode": "e2e", "lits": ls}, st.lists(_literal(), min_size=1, max_size=ctx.pick(30, 40)))


def _valid(lit):
    """finite, non-zero-overflowing double (g++ rejects out-of-range float literals only with -pedantic; keep them finite)"""
    try:
        v = float(lit["t"])
    except ValueError:
        return False
    if v == float("inf"):
        return False
    if lit["s"] in ("f", "F"):
        try:
            struct.pack("f", v)
        except OverflowError:
            return False
        if v != 0 and abs(v) < 1e-37:
            return False
    return True


def judge_e2e(case, ctx):
    lits = [l for l in case["lits"] if _valid(l)]
    n_excl = 0
    if "fp.subnormal" in ctx.disabled_tags:
        keep = [l for l in lits if not (0 < abs(float(l["t"])) < 2.2250738585072014e-308)]
        n_excl = len(lits) - len(keep)
        lits = keep
    if not lits:
        return Outcome(discard=True)
    lines = ["#include <verif_prelude.h>", "BEGIN_PUBLISH"]
    for i, l in enumerate(lits):
        ty = "float" if l["s"] else "double"
        lines.append("void lf%d(%s a = %s%s);" % (i, ty, l["t"], l["s"]))
    lines.append("END_PUBLISH")
    header = "\n".join(lines) + "\n"
    with run.Scratch("c18") as d:
        run.write(os.path.join(d, "l.h"), header)
        r = igate.interrogate(d, ["l.h"], opts=["-python-native"])
        if r.abnormal or r.rc != 0:
            return Outcome(ok=False, key="e2e:igate", detail="interrogate failed (%s): %s\n%s" % (r.kind(), r.err.decode("latin-1")[-300:], header))
        code = open(os.path.join(d, "l_igate.cxx"), encoding="latin-1").read()
        db = igate.load_db(os.path.join(d, "l.in"))
        protos = {}
        for f in db["functions"]:
            m = re.match(r"void lf(\d+)\((?:float|double) a = (.*)\);", f["prototype"].strip())
            if m:
                protos[int(m.group(1))] = m.group(2)
        # text used in the wrapper body for the omitted default:  "// 1-void lfN(double a = X)" followed by "<type> param0 = X;"
        incode = {}
        for m in re.finditer(r"// 1-void lf(\d+)\((?:float|double) a = [^\n]*\)\n\s*(?:float|double) param0 = ([^;\n]*);", code):
            incode[int(m.group(1))] = m.group(2)
        chk = ["#include <cstring>", "#include <cstdio>", "template<class T> static int same(T a, T b) { return memcmp(&a, &b, sizeof(T)) == 0; }",
               "int main() { int bad = 0;"]
        n_checked = 0
        for i, l in enumerate(lits):
            ty = "float" if l["s"] else "double"
            for src, table in (("prototype", protos), ("code", incode)):
                if i in table:
                    chk.append('  if (!same<%s>((%s)(%s%s), (%s)(%s))) { printf("DIFF %d %s\\n"); bad = 1; }' % (
                        ty, ty, l["t"], l["s"], ty, table[i], i, src))
                    n_checked += 1
        chk.append("  return bad; }")
        if n_checked == 0:
            return Outcome(ok=False, key="e2e:nothing", detail="no default-argument text found in the outputs\n" + header)
        run.write(os.path.join(d, "chk.cxx"), "\n".join(chk) + "\n")
        g = igate.gxx(d, ["-O0", "chk.cxx", "-o", "chk"])
        if g.rc != 0:
            return Outcome(ok=False, key="e2e:uncompilable",
                           detail="printed literal text does not compile: %s\nprototypes: %s" % (
                               g.err.decode("latin-1")[:400], sorted(protos.items())[:5]))
        r2 = run.run([os.path.join(d, "chk")], cwd=d)
    classes = ["e2e.float" if l["s"] else "e2e.double" for l in lits] + ["excluded.fp.subnormal"] * n_excl
    if r2.rc != 0:
        first = r2.out.decode().split("\n")[0].split()
        i = int(first[1])
        return Outcome(ok=False, key="e2e:value", classes=classes,
                       detail="literal %s%s is written back as %s (%s): not the same value" % (
                           lits[i]["t"], lits[i]["s"], protos.get(i) if first[2] == "prototype" else incode.get(i), first[2]))
    nt = []
    for l in lits:
        v = float(l["t"])
        if v != 0 and (len(repr(v)) >= 12 or "e" in l["t"]):
            nt.append("e2e:" + l["t"] + l["s"])
    return Outcome(ok=True, nontrivial=nt, classes=classes, sample={"literals": [l["t"] + l["s"] for l in lits[:8]]})


def worker(ctx, widx, stage, stats):
    if stage == "e2e":
        f = core.hypothesis_search(None, ctx, _e2e_strategy(ctx), judge_e2e, ctx.pick(150, 1500), ctx.seed * 1000 + widx, stats,
                                   time_budget=ctx.pick(80, 900))
        return [f] if f else []
    h = _harness()
    env = run.base_env()
    seed = (ctx.seed * 1000 + widx * 7 + {"fmt": 1, "parse": 2, "parse_comma": 3, "f32": 4}[stage]) or 1
    if stage == "f32":
        lo = widx * (1 << 28)
        r = run.run([h, "f32", str(lo), str(lo + (1 << 28))], env=env, timeout=3000)
        stats.extra["float32_exhaustive"] = True
    else:
        n = {"fmt": ctx.pick(3000000, 60000000), "parse": ctx.pick(1500000, 20000000), "parse_comma": ctx.pick(1500000, 20000000)}[stage]
        env["RC_PARAMS"] = "seed=%d max_success=%d max_size=1000 noshrink=0" % (seed + 1, n)
        if stage == "parse_comma":
            env.update({"LOCPATH": aux.ensure_locale(), "LC_ALL": "xx_COMMA", "RC_NUM_LOCALE": "1"})
        r = run.run([h, "parse" if stage.startswith("parse") else "fmt"], env=env, timeout=3000)
    before = stats.extra.get("_nt", 0)
    case, why = _parse_out(r.out, stats)
    # distinct non-trivial cases are counted inside the harness (set of bit patterns / spellings)
    for i in range(stats.extra.get("_nt", 0) - before):
        stats.nontrivial.add("%s-%d-%d" % (stage, widx, i))
    stats.extra.pop("_nt", None)
    stats.classes["stage." + stage] += 1
    if r.abnormal:
        return [dict(case={"mode": "crash", "v": stage}, detail="harness died: %s %s" % (r.kind(), r.err.decode("latin-1")[-300:]), key="harness-crash")]
    if r.rc == 0:
        return []
    if r.rc == 2:
        raise core.Broken("rc_num setup failure: " + r.err.decode("latin-1")[-300:])
    if case is None:
        raise core.Broken("rc_num failed without a case: " + r.out.decode("latin-1")[-400:])
    if stage == "parse_comma":
        case["locale"] = "comma"
    return [dict(case=case, detail=why, key="lib:" + case["mode"])]
