"""C15 -- the front-end is total: any input ends in a diagnostic, never a crash or hang.
(1) coverage-guided fuzzing (libFuzzer, ASan+UBSan) of the linked parser on four input channels,
    crash artifacts clustered by (kind, innermost in-repo function) and compared with the known list;
(2) CLI semantics on generated/mutated inputs: ordinary exit status, error => non-zero and no outputs."""
import glob
import hashlib
import os
import re
import shutil
import time

from hypothesis import strategies as st

from .. import aux, build, core, ctok, igate, run
from ..core import Outcome

ID = "C15"
LEVEL = "exploration"
ENGINE = "libFuzzer + hypothesis"
TECHNIQUE = "coverage-guided fuzzing (libFuzzer with ASan/UBSan on the linked front-end, crash clustering by site) plus Hypothesis token-level mutation of seeds against the CLI exit-status/output-file oracle"
RULE = ("libFuzzer mutates inputs on four channels (source file, included file, -D definition, preprocess-only; +/- __cplusplus) seeded "
        "with the repository's tests, stub headers and the edge-case list; every crash/timeout artifact is re-run alone, its site "
        "(signal or sanitizer kind + innermost function under /repo/src) extracted, and compared with the known list. Hypothesis applies "
        "token-level mutations (delete/duplicate/swap/truncate/unbalance, splice of edge fragments) to seeds and runs parse_file and "
        "interrogate -oc -od -oh: no signal, no hang (20 s), a parse error implies a non-zero status and no output files, status 0 "
        "implies the requested outputs exist. Non-trivial: an input not identical to a seed that reaches the tokenizer; distinct by "
        "libFuzzer coverage-increasing units plus input hashes of CLI cases.")
ASSUMPTIONS = ["memory-error detection is as good as ASan/UBSan (clang 14)", "'bounded time' = 10 s per fuzz input / 20 s per CLI run for inputs <= 64 KB; timeouts are re-run alone before they count",
               "crash identity = (kind, innermost in-repo function), never line numbers"]
NONTRIVIAL_FLOOR = 20

EDGE = [b"int f(); constexpr bool vb1 = f(); static_assert(vb1, \"\");\n", b"int g(); const bool vb2 = g() > 0; int arr2[vb2 ? 1 : 2];\n",
        b"constexpr bool vb3 = 1 / 0; enum { e3 = vb3 };\n", b"const bool vb4 = \"s\"; static_assert(!vb4, \"\");\n",
        b"extern const int ex5; const bool vb5 = ex5; char c5[vb5 + 1];\n", b"int f(); constexpr char vc6 = f(); static_assert(vc6 == 0, \"\");\n",
        b"int f(); constexpr short vs7 = f(); enum E7 { e7 = vs7 }; constexpr unsigned char vu7 = vs7; int a7[vu7];\n",
        b"constexpr bool vb8 = nullptr; constexpr bool vb9 = 1.5; constexpr bool vb10 = vb8 || vb9; static_assert(vb10, \"\");\n",
        b"template<int N> struct F { enum { v = F<N-1>::v }; };\ntemplate<> struct F<0> { enum { v = 0 }; };\nF<3> f; enum { six = F<3>::v };\n",
        b"template<int N> struct F { static const int v = N * F<N-1>::v; };\nF<3> *f;\n", b"template<class T> struct G { enum { v = G<T*>::v }; typedef typename G<T*>::type type; };\nG<int> g;\n",
        b"#define X(", b"#define X(a", b"#if 1 /", b"#if 1 / 0\n#endif\n", b"#if 1 % 0\n#endif\n", b"#if (-2147483647 - 1) / -1\n#endif\n", b"#if (-2147483647 - 1) % -1\n#endif\n", b"enum { a = (1 << 31) % -1, b = -2147483648 % -1 };\n", b"#if 1 % (1 - 1)\n#endif\n",
        b"#if 1 << 40\n#endif\n", b"#if 1 >> -1\n#endif\n", b"#if\n#endif\n", b"#elif 1\n", b"#endif\n", b"#else\n", b"#include\n", b"#include <\n", b"#include \"\n",
        b"#define\n", b"#undef\n", b"#pragma\n", b"#pragma once", b"#", b"# 12 \"x\"\n", b"\"unterminated", b"'u", b"'\\", b"R\"x(abc", b"R\"(", b"R\"toolongdelimiterxxxxxxxxxxxx(a)toolongdelimiterxxxxxxxxxxxx\"",
        b"/* unterminated", b"// line\\\n", b"int a[1^3];", b"enum { a = 1 / 0 };", b"enum { a = 1 % 0 };", b"int a[(1, 2)];", b"int a[-1];",
        b"#define G(x) G(x) + x\nint a = G(4);\n", b"#define S(x) #x\nconst char *s = S();\n", b"#define P(a,b) a##b\nP(,)\n", b"#define V(...) __VA_OPT__(\n",
        b"template<class T> struct A { typename T::x y; }; A<int> a;", b"struct S { S(S&&) = delete; }; S s = S();", b"class C : C {};", b"struct A; struct A : A {};",
        b"namespace N = N;", b"using T = T;", b"typedef T T;", b"int f(int = f());", b"enum E : E {};", b"struct { struct { struct {", b"((((((((((((((((((((", b"}}}}}}}}}}}}",
        b"int x = 0x;", b"int x = 0b;", b"int x = 1e;", b"double d = 1e99999;", b"int x = 99999999999999999999999;", b"int x = 1''2;", b"char c = '';", b"\x00\x01\xff\xfe",
        b"#if defined(\n#endif\n", b"#if defined\n#endif\n", b"#if __has_include(\n#endif\n", b"#if __has_include(<)\n#endif\n", b"#ifdef\n#endif\n", b"#if 1 ? 2\n#endif\n",
        b"#if 1 ^ 3\nint x;\n#endif\n", b"#if ~0u\n#endif\n", b"#if 'ab'\n#endif\n", b"__begin_publish\n__begin_publish\n", b"__end_publish\n", b"__published:\n",
        b"class A { __published: int f(); __make_property(x, f, g, h, i); };", b"class A { __make_seq(a, b, c); };", b"alignas(1 / 0) int x;", b"static_assert(1 / 0, \"\");",
        b"int a = sizeof(int[1/0]);", b"decltype(1/0) x;", b"template<int N = 1/0> struct T {};", b"struct S { int b : 1 / 0; };",
        b"#define X 1\n#pragma push_macro(\"X\")\n#undef X\n#define X 2\n#pragma pop_macro(\"X\")\nint a[X];\n",
        b"#pragma pop_macro(\"X\")\nint X;\n", b"#pragma push_macro(\"X\")\n#pragma pop_macro(\"X\")\n#pragma pop_macro(\"X\")\nint a = X;\n",
        b"#pragma push_macro(\"\")\n#pragma pop_macro(\"\n", b"#define d (struct s:\n", b"#if (struct s {\n#endif\n", b"#define e (enum {a\nint x = e;\n",
        b"decltype(undeclared_name) x;", b"struct B;\nstruct A : B {\n__published:\n  virtual int fa();\n};\nstruct B : A {\n__published:\n  int fb();\n};\n",
        b"template<class... Ts> struct V;\ntemplate<class P> struct H<V<P", b"struct S {\n__published:\n  S a;\n  int x;\n};\n", b"struct Q;\nstruct P { Q *p; };\nstruct Q {\n__published:\n  P p; Q q; int g();\n};\n", b"#line 5\n#line\n#line x\n", b"#error\n#warning\n", b"#elifdef X\n#elifndef\n", b"#include_next <x>\n", b"#ident \"x\"\n#assert x\n"]


def stages(ctx):
    return [("fuzz", 1), ("cli", 10)]


# ---- seeds ----------------------------------------------------------------------------------------------------

def seed_files():
    out = []
    for pat in ("tests/cppparser/*", "tests/interrogatedb/*.h"):
        for p in sorted(glob.glob(os.path.join(build.REPO, pat))):
            if p.endswith((".c", ".h", ".cxx")):
                out.append(open(p, "rb").read())
    stubs = sorted(glob.glob(os.path.join(build.REPO, "parser-inc", "*")))
    for p in stubs:
        if os.path.isfile(p) and os.path.getsize(p) < 6000:
            out.append(open(p, "rb").read())
    kh = os.path.join(build.VERIF, "corpus", "headers", "kitchen.h")
    out.append(b"#define PUBLISHED __published\n#define BEGIN_PUBLISH __begin_publish\n#define END_PUBLISH __end_publish\n"
               b"#define MAKE_PROPERTY(n, ...) __make_property(n, __VA_ARGS__)\n#define MAKE_SEQ(a,b,c) __make_seq(a,b,c)\n" +
               open(kh, "rb").read().replace(b"#include <verif_prelude.h>\n", b""))
    return out


def fuzz_dict(path):
    src = open(os.path.join(build.REPO, "src", "cppparser", "cppPreprocessor.cxx")).read()
    words = set(re.findall(r'\{"(\w+)",\s*KW_', src))
    words |= {"define", "undef", "include", "ifdef", "ifndef", "elif", "elifdef", "elifndef", "endif", "pragma", "once", "defined",
              "__has_include", "__VA_ARGS__", "__VA_OPT__", "push_macro", "pop_macro", "error", "warning", "line"}
    ops = ["##", "#", "<<", ">>", "<=>", "::", "->*", ".*", "...", "&&", "||", "<:", ":>", "%:", "R\"(", ")\"", "/*", "*/", "//", "\\\n", "0x", "0b", "1e", "'", "\""]
    with open(path, "w") as f:
        for w in sorted(words):
            f.write('"%s"\n' % w)
        for o in ops:
            f.write('"%s"\n' % "".join("\\x%02x" % ord(c) for c in o))


# ---- crash clustering ----------------------------------------------------------------------------------------

FRAME = re.compile(r"^\s*#\d+ 0x[0-9a-f]+ in (.+?) (/\S+?):\d+", re.M)


def crash_site(stderr_text):
    """-> (kind, site)"""
    kind = "unknown"
    m = re.search(r"ERROR: AddressSanitizer: ([\w-]+)", stderr_text)
    if m:
        kind = m.group(1)
        if kind == "SEGV" and "stack-overflow" in stderr_text:
            kind = "stack-overflow"
    elif "runtime error:" in stderr_text:
        m2 = re.search(r"runtime error: ([^\n]{0,60})", stderr_text)
        kind = "ubsan:" + re.sub(r"[-0-9]+", "N", m2.group(1)).strip()[:40]
    elif "deadly signal" in stderr_text:
        kind = "abort" if ("terminate called" in stderr_text or "Assertion" in stderr_text or "abort" in stderr_text.lower()) else "signal"
        m3 = re.search(r"terminate called after throwing an instance of '([^']+)'", stderr_text)
        if m3:
            kind = "uncaught:" + m3.group(1)
        elif "Assertion" in stderr_text:
            kind = "assert"
        elif "**unexpected" in stderr_text or "**invalid" in stderr_text:
            kind = "abort"
    elif "timeout after" in stderr_text or "ALARM" in stderr_text:
        kind = "timeout"
    elif "out-of-memory" in stderr_text:
        kind = "oom"
    site = "?"
    for fn, path in FRAME.findall(stderr_text):
        if "/src/" in path and ("/repo/" in path or "/cppparser/" in path) and "verif" not in path and "/harness/" not in path:
            site = re.sub(r"\(.*$", "", fn).strip()
            site = re.sub(r"<.*>", "", site)
            break
    return kind, site


def known_sites(ctx):
    out = {}
    for k in ctx.known:
        for s in k.get("crash_sites", []):
            out[(s["kind"], s["site"])] = k
    return out


# ---- libFuzzer campaign ----------------------------------------------------------------------------------------

def fuzz_stage(ctx, stats):
    h = aux.ensure_harness("fz_parse", "fuzz", libs=("cppParser", "dtoolutil", "dtoolbase"))
    work = os.path.join("/dev/shm", "verif-fuzz-%d" % os.getpid())
    shutil.rmtree(work, ignore_errors=True)
    corpus, arts = os.path.join(work, "corpus"), os.path.join(work, "artifacts")
    os.makedirs(corpus)
    os.makedirs(arts)
    n = 0
    for sd in seed_files():
        for sel in (0x10, 0x11, 0x13, 0x00, 0x31):
            open(os.path.join(corpus, "seed%04d" % n), "wb").write(bytes([sel]) + sd[:20000])
            n += 1
    for e in EDGE:
        for sel in (0x10, 0x11, 0x12, 0x13, 0x31, 0x30):
            open(os.path.join(corpus, "seed%04d" % n), "wb").write(bytes([sel]) + e)
            n += 1
    dct = os.path.join(work, "dict.txt")
    fuzz_dict(dct)
    secs = ctx.pick(70, 900)
    seed = (ctx.seed * 7919 + 12345) % (2 ** 31 - 1) or 1
    env = run.base_env({"ASAN_OPTIONS": "detect_leaks=0:abort_on_error=0:handle_abort=1:allocator_may_return_null=1", "UBSAN_OPTIONS": "print_stacktrace=1:halt_on_error=1"})
    t0 = time.time()
    r = run.run([h, "-fork=10", "-ignore_crashes=1", "-ignore_timeouts=1", "-ignore_ooms=1", "-timeout=10", "-rss_limit_mb=2048", "-max_len=4096",
                 "-max_total_time=%d" % secs, "-seed=%d" % seed, "-dict=" + dct, "-artifact_prefix=" + arts + "/", "-print_final_stats=1", corpus],
                cwd=work, env=env, timeout=secs + 300, asan=True)
    err = r.err.decode("latin-1")
    m = re.findall(r"#(\d+): cov: (\d+) ft: (\d+) corp: (\d+)", err)
    execs = int(m[-1][0]) if m else 0
    cov = int(m[-1][1]) if m else 0
    corp = int(m[-1][3]) if m else 0
    stats.evaluations += max(execs, 1)
    stats.extra.update(fuzz_execs=execs, fuzz_cov_edges=cov, fuzz_corpus_units=corp, fuzz_seconds=int(time.time() - t0), fuzz_seed_units=n)
    for i in range(max(0, corp - n)):
        stats.nontrivial.add("fuzz-unit-%d" % i)
    # cluster artifacts
    known = known_sites(ctx)
    macro_timeouts_known = any(k == "timeout" for k, _ in known)
    macro_site = next((sname for k, sname in known if k == "timeout"), "?")
    files = sorted(glob.glob(os.path.join(arts, "crash-*")) + glob.glob(os.path.join(arts, "timeout-*")))
    stats.extra["fuzz_artifacts"] = len(files)
    clusters = {}
    fails = []
    t_end = time.time() + ctx.pick(100, 600)
    n_to = 0
    for f in files:
        if os.path.basename(f).startswith("timeout-"):
            n_to += 1
            if n_to > ctx.pick(2, 10):
                continue          # re-running a timeout costs a minute; the rest is counted as unexamined
        if time.time() > t_end:
            stats.extra["fuzz_artifacts_unexamined"] = len(files) - sum(c["n"] for c in clusters.values())
            break
        is_to = os.path.basename(f).startswith("timeout-")
        rr = run.run([h, "-timeout=40" if is_to else "-timeout=25", f], cwd=work, env=env, timeout=70, asan=True)
        if rr.rc == 0 and not rr.timed_out:
            clusters.setdefault(("not-reproduced", "-"), {"n": 0, "file": f})["n"] += 1
            continue
        kind, site = crash_site(rr.err.decode("latin-1"))
        if rr.timed_out:
            kind = "timeout"
        if kind == "timeout" and (kind, site) not in known and macro_timeouts_known:
            # attribute the hang: the same input with its function-like macro definitions neutralised.  If that terminates, the time
            # goes into macro expansion (the recorded finding), wherever the stack happened to be when the alarm fired.
            data = open(f, "rb").read()
            neutral = data[:1] + re.sub(rb"(#[ \t]*define[ \t]+\w+)\(", rb"\1_VFOFF (", data[1:])
            nf = f + ".neutral"
            open(nf, "wb").write(neutral)
            r2 = run.run([h, "-timeout=40", nf], cwd=work, env=env, timeout=70, asan=True)
            if neutral != data and r2.rc == 0 and not r2.timed_out:
                site = macro_site
        c = clusters.setdefault((kind, site), {"n": 0, "file": f, "err": rr.err.decode("latin-1")[-1500:]})
        c["n"] += 1
        if os.path.getsize(f) < os.path.getsize(c["file"]):
            c["file"] = f
    stats.extra["fuzz_crash_clusters"] = {"%s @ %s" % k: v["n"] for k, v in clusters.items()}
    for (kind, site), c in clusters.items():
        if kind == "not-reproduced":
            continue
        if (kind, site) in known:
            stats.excluded["%s @ %s" % (kind, site)] += c["n"]
            continue
        data = open(c["file"], "rb").read()
        fails.append(dict(case={"fuzz": True, "hex": data.hex()}, detail="%s in %s (libFuzzer artifact, %d bytes, channel byte %#x): %r\n%s" % (
            kind, site, len(data), data[0], data[1:200], c.get("err", "")[-600:]), key="crash:%s@%s" % (kind, site)))
    shutil.rmtree(work, ignore_errors=True)
    return fails


def judge_fuzz(case, ctx):
    h = aux.ensure_harness("fz_parse", "fuzz", libs=("cppParser", "dtoolutil", "dtoolbase"))
    env = run.base_env({"ASAN_OPTIONS": "detect_leaks=0:abort_on_error=0:handle_abort=1:allocator_may_return_null=1", "UBSAN_OPTIONS": "print_stacktrace=1:halt_on_error=1"})
    with run.Scratch("c15f") as d:
        p = os.path.join(d, "input")
        open(p, "wb").write(bytes.fromhex(case["hex"]))
        r = run.run([h, "-timeout=60", p], cwd=d, env=env, timeout=90, asan=True)
    if r.rc == 0 and not r.timed_out:
        return Outcome(ok=True)
    kind, site = crash_site(r.err.decode("latin-1"))
    return Outcome(ok=False, key="crash:%s@%s" % (kind, site), detail="%s in %s: %s" % (kind, site, r.err.decode("latin-1")[-500:]))


# ---- CLI semantics ------------------------------------------------------------------------------------------------

_SEEDS = None


def _seeds():
    global _SEEDS
    if _SEEDS is None:
        _SEEDS = [s for s in seed_files() if len(s) < 8000] + EDGE
    return _SEEDS


def _strategy(ctx):
    muts = st.lists(st.tuples(st.sampled_from(["del", "dup", "swap", "trunc", "insert", "edge", "unbalance", "repeat"]), st.integers(0, 10 ** 6), st.integers(0, 10 ** 6)),
                    min_size=0, max_size=4)
    dopt = st.one_of(st.none(), st.none(), st.sampled_from(DOPTS), st.text(alphabet="AB_(),=#. 1/\"'", min_size=1, max_size=8))
    return st.builds(lambda seed, muts, tool, cpp, d: {"seed": seed, "muts": muts, "tool": tool, "cpp": cpp, "dopt": d},
                     st.integers(0, 10 ** 6), muts, st.sampled_from(["parse_file", "interrogate", "interrogate", "parse_file_E"]), st.booleans(), dopt)


DOPTS = ["=x", " X=1", "X(", "X(a", "X(a,b)=a##b", "X=1/0", "X()", "X(...)=__VA_OPT__(", "defined", "X=#", "X=\"", "__cplusplus", "X(a,a)=a", "1X=2", "X=X"]
PUNCT_INS = [b"(", b")", b"{", b"}", b"<", b">", b";", b"#", b"##", b"\"", b"'", b"\\\n", b"::", b"template", b"operator", b"__published:", b",", b"=", b"0", b"*/", b"/*"]


def materialise(case):
    if "text" in case:
        return case["text"].encode("latin-1")         # replay form of minimised findings
    seeds = _seeds()
    data = seeds[case["seed"] % len(seeds)]
    toks = re.findall(rb"\s+|[A-Za-z_]\w*|\d[\w.']*|\"(?:[^\"\\\n]|\\.)*\"|'(?:[^'\\\n]|\\.)*'|.", data, re.S)
    for kind, a, b in case["muts"]:
        if not toks:
            break
        i, j = a % len(toks), b % len(toks)
        if kind == "del":
            del toks[i]
        elif kind == "dup":
            toks.insert(i, toks[i])
        elif kind == "swap":
            toks[i], toks[j] = toks[j], toks[i]
        elif kind == "trunc":
            toks = toks[:max(1, i)]
            toks[-1] = toks[-1][:max(1, b % (len(toks[-1]) + 1))]
        elif kind == "insert":
            toks.insert(i, PUNCT_INS[b % len(PUNCT_INS)])
        elif kind == "edge":
            toks.insert(i, b"\n" + EDGE[b % len(EDGE)] + b"\n")
        elif kind == "repeat":
            # a run of 1..3 tokens repeated many times: long chains and deep nesting (bounded by the 64 KB cut below)
            w = 1 + b % 3
            n = [40, 400, 1500][(b // 3) % 3]
            toks[i:i + w] = toks[i:i + w] * n
        elif kind == "unbalance":
            toks = [t for k, t in enumerate(toks) if not (t in (b")", b"}", b"]") and k >= i)][:len(toks)]
    return b"".join(toks)[:65536]


def judge(case, ctx):
    if case.get("fuzz"):
        return judge_fuzz(case, ctx)
    data = materialise(case)
    seeds = _seeds()
    with run.Scratch("c15") as d:
        run.write(os.path.join(d, "in.h"), data)
        cpp = ["-D__cplusplus=201703L"] if case["cpp"] else []
        if case.get("dopt"):
            cpp = cpp + ["-D" + case["dopt"]]
        outs = []
        if case["tool"] == "interrogate":
            outs = ["o.cxx", "o.in", "o.txt"]
            argv = [build.tool("interrogate"), "-oc", "o.cxx", "-od", "o.in", "-oh", "o.txt", "-module", "m", "-library", "l", "-python-native",
                    "-DCPPPARSER", "-S" + run.PARSER_INC] + cpp + ["in.h"]
        elif case["tool"] == "parse_file_E":
            argv = [build.tool("parse_file"), "-E", "-S" + run.PARSER_INC] + cpp + ["in.h"]
        else:
            argv = [build.tool("parse_file"), "-S" + run.PARSER_INC] + cpp + ["in.h"]
        r = run.run(argv, cwd=d, timeout=20, env=run.base_env({"SOURCE_DATE_EPOCH": "1"}))
        slow = False
        if r.timed_out:
            # slow is not endless: long one-line inputs make the diagnostics quadratic (every error re-reads and prints the line).
            # Only an input that is still running after ten times the budget is reported as a hang.
            slow = True
            for o in outs:
                if os.path.exists(os.path.join(d, o)):
                    os.unlink(os.path.join(d, o))
            r = run.run(argv, cwd=d, timeout=200, env=run.base_env({"SOURCE_DATE_EPOCH": "1"}))
        exist = [o for o in outs if os.path.exists(os.path.join(d, o))]
    classes = ["tool." + case["tool"]] + ["mut." + m[0] for m in case["muts"]]
    show = data[:600]
    if r.timed_out:
        return Outcome(ok=False, key="hang:" + case["tool"], classes=classes, detail="%s does not terminate within 200 s on a %d-byte input: %r" % (case["tool"], len(data), show))
    if slow:
        classes.append("slow-but-terminates")
    if r.signal:
        err = r.err.decode("latin-1")
        why = "assert" if "Assertion" in err else ("uncaught:" + re.search(r"instance of '([^']+)'", err).group(1) if "terminate called" in err and re.search(r"instance of '([^']+)'", err) else r.kind())
        site = ""
        m = re.search(r"(\w[\w:~ ]+)\(?[^\n]*: Assertion", err)
        if m:
            site = m.group(1).strip().split(" ")[-1]
        return Outcome(ok=False, key="cli-crash:%s:%s" % (why, site), classes=classes,
                       detail="%s died (%s %s) on a %d-byte input: %r\nstderr: %s" % (case["tool"], r.kind(), why, len(data), show, err[-400:]))
    err = r.err.decode("latin-1")
    had_error = bool(re.search(r":\d+:\d+: error:", err)) or "Error in parsing" in err or "Error in preprocessing" in err
    if had_error and r.rc == 0:
        return Outcome(ok=False, key="error-status-0:" + case["tool"], classes=classes, detail="%s reported a parse error but exits 0: %s\ninput: %r" % (case["tool"], err[-300:], show))
    if had_error and exist:
        return Outcome(ok=False, key="error-leaves-output", classes=classes, detail="interrogate reported a parse error but wrote %s\ninput: %r" % (exist, show))
    if r.rc == 0 and outs and len(exist) != len(outs):
        return Outcome(ok=False, key="ok-without-output", classes=classes, detail="interrogate exits 0 but only %s exist" % exist)
    nt = []
    if case["muts"] and data.strip():
        nt.append(hashlib.sha256(data).hexdigest()[:12])
    classes.append("rc0" if r.rc == 0 else "rejected")
    return Outcome(ok=True, nontrivial=nt, classes=classes, sample={"tool": case["tool"], "input": data[:200].decode("latin-1"), "rc": r.rc})


def worker(ctx, widx, stage, stats):
    if stage == "fuzz":
        return fuzz_stage(ctx, stats)
    f = core.hypothesis_search(None, ctx, _strategy(ctx), judge, ctx.pick(500, 6000), ctx.seed * 1000 + widx, stats,
                               time_budget=ctx.pick(80, 900))
    return [f] if f else []
