"""C06 -- valid C++ is accepted and every printed type is the type that was written.
Declarator-grammar generator; g++ decides validity and judges type identity through compiler-checked
redeclaration of the text interrogate prints."""
import glob
import os
import re

from hypothesis import strategies as st

from .. import build, core, igate, run
from ..core import Outcome

ID = "C06"
LEVEL = "exploration"
TECHNIQUE = "property-based testing (Hypothesis declarator/type-name grammar) with g++ as acceptance filter and as judge of type identity (static_assert is_same between the original declaration and the text interrogate prints); plus the parser-inc corpus"
RULE = ("Hypothesis builds typedef / variable / function declarations by repeated application of pointer, lvalue/rvalue reference, array, "
        "function, pointer-to-member(-function), const/volatile (east and west) to base types reached through namespaces, nested "
        "classes, using-declarations, namespace aliases, shadowed names, elaborated specifiers and template instances with type and "
        "non-type arguments and defaults. Only TUs g++ accepts are used. The declarations printed by parse_file and the type names / "
        "prototypes in the interrogate database are re-declared under fresh names in the original TU and "
        "static_assert(std::is_same<original, printed>) must compile. Second slice: every parser-inc stub header that g++ accepts must "
        "parse with zero errors. Third slice: a published class inside nested namespaces/classes uses unqualified class and template "
        "names that are declared at several levels (shadowing, using-directives, using-declarations, typedefs; which of them exist is "
        "generated, g++ filters invalid TUs); the method types recorded in the database must satisfy "
        "static_assert(is_same<decltype(&Scope::W::f), recorded>). Non-trivial: a declaration with declarator depth>=2 or a qualified/aliased/template name; distinct by "
        "(declarator skeleton, name-lookup feature).")
ASSUMPTIONS = ["g++ 12 -std=gnu++17 decides what is valid C++ and whether two spellings denote the same type", "harmless spelling differences (east/west const, spacing, added ::) pass by construction of the oracle",
               "printed text that g++ cannot parse at all counts as a failure of that declaration"]
NONTRIVIAL_FLOOR = 30

PRELUDE = """\
struct S0 { int m; double d; int f(int); int g(int) const; };
struct Sh { int outer; };
namespace N {
  struct S1 { struct In { int i; }; typedef In *InP; };
  struct Sh { int inner; };
  typedef int I32;
  typedef unsigned long UL;
  enum E { e0, e1 };
  enum class Ec : short { c0, c1 };
  namespace M { struct Deep { int z; }; }
}
namespace NA = N;
namespace NM = N::M;
using N::I32;
using N::S1;
template<class T, int K = 3> struct Tp { T a[K]; };
template<class A, class B = A> struct Pair { A first; B second; };
typedef Tp<int> TpInt;
struct VB0 { int vb; };
struct VD0 : virtual VB0 { };
class VD1 : virtual VB0, public virtual Sh { };
struct VD2 : private virtual VB0, virtual protected Sh { };
"""

BASES = [("int", None), ("unsigned int", None), ("char", None), ("bool", None), ("double", None), ("long long", None), ("unsigned char", None),
         ("short", None), ("float", None), ("S0", "class"), ("struct S0", "elaborated"), ("N::S1", "qualified"), ("S1", "using"), ("NA::S1", "alias"),
         ("N::S1::In", "nested"), ("NA::S1::In", "alias"), ("N::I32", "qualified"), ("I32", "using"), ("N::UL", "qualified"), ("N::E", "qualified"),
         ("N::Ec", "qualified"), ("enum N::E", "elaborated"), ("N::M::Deep", "nested"), ("NM::Deep", "alias"), ("::Sh", "shadow"), ("N::Sh", "shadow"),
         ("Tp<int>", "template_type"), ("Tp<N::S1, 4>", "template_value"), ("Tp<S0, 2 + 1>", "template_value"), ("Pair<int>", "template_default"),
         ("Pair<N::S1, const S0 *>", "template_type"), ("TpInt", "typedef"), ("N::S1::InP", "typedef"), ("Tp<Tp<char>, 2>", "template_type"),
         ("void", None), ("Tp<char, -(-2)>", "template_value"), ("Tp<long, +(+3) - -1>", "template_value"), ("Tp<bool, ~(-4)>", "template_value")]
CLASSES = ["S0", "N::S1", "N::S1::In"]
OPS = ["ptr", "ptr", "lref", "rref", "array", "array", "func", "const", "const", "volatile", "memptr", "memfn"]


def stages(ctx):
    return [("decls", 10), ("scoped", 4), ("stubs", 2)]


def _strategy(ctx):
    op = st.tuples(st.sampled_from(OPS), st.integers(0, 50), st.integers(0, 50))
    decl = st.builds(lambda kind, base, ops, east: {"kind": kind, "base": base, "ops": ops, "east": east},
                     st.sampled_from(["typedef", "typedef", "using", "var", "func"]), st.integers(0, len(BASES) - 1), st.lists(op, max_size=5), st.booleans())
    return st.builds(lambda ds: {"decls": ds}, st.lists(decl, min_size=1, max_size=ctx.pick(40, 80)))


class T:
    """type term: kind in base ptr lref rref array func memptr memfn; cv flags on the node itself"""

    def __init__(self, kind, **kw):
        self.kind = kind
        self.c = False
        self.v = False
        self.__dict__.update(kw)


def build_type(d, off):
    """apply the ops; invalid applications are skipped.  -> (T, features, skeleton)"""
    bname, feat = BASES[d["base"]]
    feats = set([feat]) if feat else set()
    t = T("base", name=bname)
    skel = []
    for op, a, b in d["ops"]:
        k = t.kind
        is_void = k == "base" and t.name == "void" and not skel
        if op == "volatile" and "decl.volatile" in off:
            continue
        if op == "memptr" and "decl.memptr" in off:
            continue
        if op == "ptr":
            if k in ("lref", "rref"):
                continue
            t = T("ptr", to=t)
        elif op in ("lref", "rref"):
            if k in ("lref", "rref") or is_void_type(t):
                continue
            t = T(op, to=t)
        elif op == "array":
            if k in ("lref", "rref", "func") or is_void_type(t):
                continue
            t = T("array", of=t, n=1 + a % 5)
        elif op == "func":
            if k in ("array", "func"):
                continue
            nparams = a % 3
            params = []
            for i in range(nparams):
                pb, pf = BASES[(b + i * 7) % (len(BASES) - 1)]
                if pb.startswith("enum ") and "name.elaborated_enum_param" in off:
                    pb = pb[5:]
                if pf:
                    feats.add(pf)
                pt = T("base", name=pb)
                if (a + i) % 3 == 0:
                    pt = T("ptr", to=pt)
                elif (a + i) % 3 == 1 and pb != "void":
                    pt = T("lref", to=pt)
                    pt.to.c = True
                params.append(pt)
            t = T("func", ret=t, params=params, ellipsis=(b % 7 == 0 and nparams > 0))
        elif op == "const":
            if k in ("lref", "rref", "func", "array") or t.c:
                continue
            if k == "memfn":
                if "decl.const_memfn_ptr" in off:
                    continue
                feats.add("const_memfn_ptr")
            t.c = True
        elif op == "volatile":
            if k in ("lref", "rref", "func", "array") or t.v:
                continue
            t.v = True
            feats.add("volatile")
        elif op == "memptr":
            if k in ("lref", "rref", "func") or is_void_type(t):
                continue
            t = T("memptr", cls=CLASSES[a % len(CLASSES)], to=t)
            feats.add("memptr")
        elif op == "memfn":
            if k in ("array", "func", "lref", "rref"):
                continue
            cq = (a % 2 == 0)
            if cq and re.search(r"\)\s*[\[(]", spell(t, "X", True)):
                if "decl.memfn_const_complex_ret" in off:
                    cq = False        # known finding: the const of such a member function is printed in the wrong place
                else:
                    feats.add("memfn_const_complex_ret")
            t = T("memfn", cls=CLASSES[a % len(CLASSES)], ret=t, params=[T("base", name="int")] * (b % 2), cq=cq)
            feats.add("memfn")
        else:
            continue
        skel.append(op)
    return t, feats, skel


def is_void_type(t):
    return t.kind == "base" and t.name == "void"


def spell(t, inner, east):
    """C declarator printer: returns the declaration text of `inner` having type t"""
    cv = ((" const" if t.c else "") + (" volatile" if t.v else ""))
    k = t.kind
    if k == "base":
        if east or not cv:
            return "%s%s %s" % (t.name, cv, inner)
        return "%s %s %s" % (cv.strip(), t.name, inner)
    if k == "ptr":
        s = "*%s %s" % (cv.strip(), inner) if cv else "*" + inner
        if t.to.kind in ("array", "func"):
            s = "(" + s + ")"
        return spell(t.to, s, east)
    if k in ("lref", "rref"):
        s = ("&" if k == "lref" else "&&") + inner
        if t.to.kind in ("array", "func"):
            s = "(" + s + ")"
        return spell(t.to, s, east)
    if k == "array":
        return spell(t.of, "%s[%d]" % (inner, t.n), east)
    if k == "func":
        ps = ", ".join(spell(p, "", east).strip() for p in t.params)
        if t.ellipsis:
            ps += ", ..."
        return spell(t.ret, "%s(%s)" % (inner, ps), east)
    if k == "memptr":
        s = "%s::*%s %s" % (t.cls, cv.strip(), inner) if cv else "%s::*%s" % (t.cls, inner)
        if t.to.kind in ("array", "func"):
            s = "(" + s + ")"
        return spell(t.to, s, east)
    if k == "memfn":
        ps = ", ".join(spell(p, "", east).strip() for p in t.params)
        s = "(%s::*%s %s)" % (t.cls, cv.strip(), inner) if cv else "(%s::*%s)" % (t.cls, inner)
        return spell(t.ret, "%s(%s)%s" % (s, ps, " const" if t.cq else ""), east)
    raise ValueError(k)


def render(case, off):
    lines = [PRELUDE]
    ents = []
    for i, d in enumerate(case["decls"]):
        if BASES[d["base"]][0].startswith("enum ") and "name.elaborated_enum_param" in off and (d["kind"] != "typedef" or d["ops"]):
            d = dict(d, base=[b[0] for b in BASES].index("N::E"))       # known finding: only 'typedef enum N::E T;' parses
        t, feats, skel = build_type(d, off)
        sp = spell(t, "X", True)
        user_base = BASES[d["base"]][1] is not None
        # "ClassName (declarator)...": only the plain pointer-to-function forms "(*X)(" / "(C::*X)(" without cv on the specifier work
        before = sp.split("X")[0]
        simple_ok = re.match(r"^[^()]*\((\w+::)*\*\s*X\)\(", sp) and "const" not in before and "volatile" not in before
        risky = bool(user_base and "(" in before and not simple_ok)
        if risky:
            if "decl.paren_array_class" in off:
                d = dict(d, ops=[o for o in d["ops"] if o[0] not in ("array", "func", "memfn", "memptr")])
                t, feats, skel = build_type(d, off)
            else:
                feats.add("paren_after_class")
        kind = d["kind"]
        if kind == "func":
            # a function declaration: t becomes the return type unless it is array/func
            if t.kind in ("array", "func"):
                kind = "typedef"
        if kind == "var" and (is_void_type(t) or t.kind == "func"):
            kind = "typedef"
        if kind in ("typedef", "using") and False:
            pass
        if kind == "using" and "(" in spell(t, "", True):
            if "decl.abstract_complex" in off:
                kind = "typedef"          # known finding: most abstract declarators with parentheses are syntax errors
            else:
                feats.add("abstract_complex")
        if kind == "using" and ("memfn" in skel or "memptr" in skel):
            if "decl.abstract_memptr" in off:
                kind = "typedef"          # known finding: abstract declarators with C::* are syntax errors
            else:
                feats.add("abstract_memptr")
        name = {"typedef": "T_%d", "using": "T_%d", "var": "v_%d", "func": "f_%d"}[kind] % i
        if kind == "typedef":
            text = "typedef " + spell(t, name, d["east"]) + ";"
        elif kind == "using":
            text = "using %s = %s;" % (name, spell(t, "", d["east"]).strip())
        elif kind == "var":
            text = "extern " + spell(t, name, d["east"]) + ";"
        else:
            fn = T("func", ret=t, params=[T("ptr", to=T("base", name="int")), T("base", name=BASES[(i * 5) % 8][0])], ellipsis=False)
            text = spell(fn, name, d["east"]) + ";"
        twin = None
        if t.kind == "memfn" and not t.cq and not t.c and not t.v and kind in ("typedef", "var"):
            # a plain pointer to function of exactly the member function's signature, declared before and after the pointer to
            # member: function types are shared between declarations, the class must not leak from one into the other
            tw = T("ptr", to=T("func", ret=t.ret, params=list(t.params), ellipsis=False))
            spw = spell(tw, "X", True)
            bw = spw.split("X")[0]
            okw = re.match(r"^[^()]*\((\w+::)*\*\s*X\)\(", spw) and "const" not in bw and "volatile" not in bw
            if not (user_base and "(" in bw and not okw):
                twin = tw
        if twin is not None:
            tname = "T_%d" % (1000 + i)
            ttext = "typedef " + spell(twin, tname, d["east"]) + ";"
            lines.append(ttext)
            ents.append({"i": 1000 + i, "kind": "typedef", "name": tname, "text": ttext, "feats": sorted(feats | {"fn_twin"}), "skel": skel + ["twin"]})
        lines.append(text)
        ents.append({"i": i, "kind": kind, "name": name, "text": text, "feats": sorted(feats), "skel": skel})
        if twin is not None:
            tname = "T_%d" % (2000 + i)
            ttext = "typedef " + spell(twin, tname, d["east"]) + ";"
            lines.append(ttext)
            ents.append({"i": 2000 + i, "kind": "typedef", "name": tname, "text": ttext, "feats": sorted(feats | {"fn_twin"}), "skel": skel + ["twin"]})
    return "\n".join(lines) + "\n", ents


def judge(case, ctx):
    if case.get("stub"):
        return judge_stub(case, ctx)
    if case.get("scoped"):
        return judge_scoped(case, ctx)
    off = frozenset(ctx.disabled_tags)
    src, ents = render(case, off)
    with run.Scratch("c06") as d:
        run.write(os.path.join(d, "l.h"), src)
        g = igate.gxx(d, ["-fsyntax-only", "-x", "c++", "l.h"])
        if g.rc != 0:
            return Outcome(discard=True, detail=g.err.decode("latin-1")[:300])
        r = igate.parse_file(d, ["l.h"], opts=["-D__cplusplus=201703L"], std=False)
        if r.abnormal:
            return Outcome(ok=False, key="crash:" + r.kind(), detail="parse_file died (%s): %s\n%s" % (r.kind(), r.err.decode("latin-1")[-300:], _decl_text(ents)))
        err = r.err.decode("latin-1")
        if r.rc != 0 or re.search(r": error:", err):
            m = re.search(r"l\.h:(\d+):", err)
            bad = ""
            if m:
                ln = int(m.group(1))
                bad = src.split("\n")[ln - 1] if ln - 1 < len(src.split("\n")) else ""
            return Outcome(ok=False, key="rejected", detail="a translation unit g++ accepts is rejected: %s\noffending line: %s" % (err[-400:], bad))
        printed = r.out.decode("latin-1")
        # printed declarations: pick the lines that declare our entities
        chk = ['#include "l.h"', "#include <type_traits>"]
        n_checked = 0
        missing = []
        for e in ents:
            m = re.search(r"^(?:typedef |extern |using )?[^\n;{}]*\b%s\b[^\n;{}]*;" % re.escape(e["name"]), printed, re.M)
            if not m:
                missing.append(e)
                continue
            line = m.group(0)
            z = "Z_%d" % e["i"]
            line2 = re.sub(r"\b%s\b" % re.escape(e["name"]), z, line)
            if e["kind"] in ("typedef", "using"):
                if line2.startswith("using"):
                    pass
                chk.append(line2 if line2.startswith(("typedef", "using")) else "typedef " + line2)
                chk.append('static_assert(std::is_same<%s, %s>::value, "%s");' % (e["name"], z, e["name"]))
            elif e["kind"] == "var":
                chk.append(line2 if line2.startswith("extern") else "extern " + line2)
                chk.append('static_assert(std::is_same<decltype(%s), decltype(%s)>::value, "%s");' % (e["name"], z, e["name"]))
            else:
                line2 = re.sub(r"\s*=\s*[^,)]+(?=[,)])", "", line2)
                chk.append(line2)
                chk.append('static_assert(std::is_same<decltype(%s), decltype(%s)>::value, "%s");' % (e["name"], z, e["name"]))
            e["printed"] = line
            n_checked += 1
        if missing:
            e = missing[0]
            return Outcome(ok=False, key="not-printed", detail="declaration %s is missing from the parsed output: %s" % (e["name"], e["text"]))
        run.write(os.path.join(d, "chk.cxx"), "\n".join(chk) + "\n")
        g2 = igate.gxx(d, ["-fsyntax-only", "-I", ".", "chk.cxx"])
        if g2.rc != 0:
            gerr = g2.err.decode("latin-1")
            # attribute the failure to the first entity named in the diagnostics
            names = re.findall(r'static assertion failed: (\w+)', gerr) or re.findall(r"\b([TvfZ]_\d+)\b", gerr)
            idx = None
            for nm in names:
                m = re.match(r"[TvfZ]_(\d+)$", nm)
                if m:
                    idx = int(m.group(1))
                    break
            e = next((x for x in ents if x["i"] == idx), ents[0])
            return Outcome(ok=False, key="type:" + ",".join(e["skel"]) + "|" + ",".join(e["feats"]), classes=["skel." + ".".join(e["skel"])],
                           detail="printed type differs from the written type:\n  written: %s\n  printed: %s\n  g++: %s" % (
                               e["text"], e.get("printed"), gerr[:500]))
        # database type names for variables
        ri = run.run([build.tool("interrogate"), "-od", "o.in", "-oc", "o.cxx", "-module", "m", "-library", "l", "-python-native", "-promiscuous",
                      "-D__cplusplus=201703L", "l.h"], cwd=d, timeout=60, env=run.base_env({"SOURCE_DATE_EPOCH": "1"}))
        if ri.abnormal:
            return Outcome(ok=False, key="igate-crash:" + ri.kind(), detail="interrogate died (%s): %s\n%s" % (ri.kind(), ri.err.decode("latin-1")[-300:], _decl_text(ents)))
        if ri.rc == 0 and os.path.exists(os.path.join(d, "o.in")):
            db = igate.load_db(os.path.join(d, "o.in"))
            Tn = {t["index"]: t for t in db["types"]}
            chk2 = ['#include "l.h"', "#include <type_traits>"]
            n2 = 0
            vars_ = {e["name"]: e for e in ents if e["kind"] == "var"}
            for el in db["elements"]:
                e = vars_.get(el["name"])
                if e is None or el["type"] not in Tn:
                    continue
                tn = Tn[el["type"]]["true_name"]
                chk2.append("using Zd_%d = %s;" % (e["i"], tn))
                chk2.append('static_assert(std::is_same<std::remove_cv<std::remove_reference<decltype(%s)>::type>::type, std::remove_cv<Zd_%d>::type>::value, "%s");' % (e["name"], e["i"], e["name"]))
                e["db_type"] = tn
                n2 += 1
            if n2:
                run.write(os.path.join(d, "chk2.cxx"), "\n".join(chk2) + "\n")
                g3 = igate.gxx(d, ["-fsyntax-only", "-I", ".", "chk2.cxx"])
                if g3.rc != 0:
                    gerr = g3.err.decode("latin-1")
                    names = re.findall(r'static assertion failed: (\w+)', gerr) or re.findall(r"\bZd_(\d+)\b", gerr)
                    idx = None
                    for nm in names:
                        m = re.search(r"(\d+)$", nm)
                        if m:
                            idx = int(m.group(1))
                            break
                    e = next((x for x in ents if x["i"] == idx), None) or next(iter(vars_.values()))
                    return Outcome(ok=False, key="dbtype:" + ",".join(e["skel"]) + "|" + ",".join(e["feats"]),
                                   detail="the database's type name differs from the declared type:\n  written: %s\n  database true_name: %s\n  g++: %s" % (
                                       e["text"], e.get("db_type"), gerr[:400]))
    nt, classes = [], []
    for e in ents:
        classes += ["op." + o for o in e["skel"]] + ["name." + f for f in e["feats"]] + ["kind." + e["kind"]]
        if len(e["skel"]) >= 2 or e["feats"]:
            nt.append(".".join(e["skel"]) + "|" + ",".join(e["feats"]))
    return Outcome(ok=True, nontrivial=nt, classes=classes, sample={"declarations": [e["text"] for e in ents[:8]]})


# ---- scoped slice: unqualified names used inside nested scopes (shadowing, using-directives, using-declarations) -----------------

SC_NAMES = ["Box<int>", "Box<Tag>", "Box<Z>", "Tag", "Z", "::Box<int>", "::Tag", "U::Z", "Box<Box<Tag> >", "Pr<Tag, Z>", "Pr<int>", "Inner", "W", "Alias"]


def _scoped_strategy(ctx):
    flag = st.booleans()
    meth = st.lists(st.integers(0, len(SC_NAMES) - 1), min_size=1, max_size=3)
    return st.builds(lambda fl, meths, where: {"scoped": True, "flags": fl, "meths": meths, "where": where},
                     st.lists(flag, min_size=12, max_size=12), st.lists(meth, min_size=1, max_size=8), st.integers(0, 2))


def render_scoped(case, off=frozenset()):
    """a TU with the same names declared at several levels; the published class W (in M::K, M or a nested class) uses them
    unqualified.  Which declarations exist is generated; g++ decides whether the result is valid."""
    f = list(case["flags"])
    if "lookup.using_directive_shadow" in off and (f[6] or f[8]):
        f[1] = f[2] = False        # known finding: names of a using-directive namespace hide those of the enclosing namespaces
    L = ["template<class X> struct Box { X g; };", "template<class A, class B = A> struct Pr { A a; B b; };", "struct Tag { int t; };", "struct Z { int gz; };" if f[0] else "",
         "struct Inner { int gi; };", "typedef Tag Alias;",
         "namespace U {", "  struct Z { int z; };", "  template<class X> struct Box { X u; };" if f[1] else "", "  struct Tag { int ut; };" if f[2] else "", "}",
         "namespace M {", "  template<class X> struct Box { X *p; };" if f[3] else "", "  struct Tag { int m; };" if f[4] else "",
         "  template<class A, class B = A> struct Pr { B b; A a; };" if f[5] else "", "  using namespace U;" if f[6] else "", "  using U::Z;" if f[7] else "",
         "  typedef Box<int> Alias;" if f[11] else "",
         "  namespace K {", "    using namespace U;" if f[8] else "", "    struct Inner { int ki; };" if f[9] else "", "    using ::Tag;" if f[10] else ""]
    where = case["where"]
    scope = {0: "M::K::W", 1: "M::K::Outer::W", 2: "M::K::W"}[where]
    ind = "    "
    if where == 1:
        L.append("    struct Outer {")
        L.append("      struct Inner { int oi; };")
        ind = "      "
    L.append(ind + "struct W {")
    L.append(ind + "__published:")
    meths = []
    for i, m in enumerate(case["meths"]):
        ret = SC_NAMES[m[0]]
        ps = [SC_NAMES[x] for x in m[1:]]
        L.append(ind + "  %s *f%d(%s);" % (ret, i, ", ".join("%s *a%d" % (p_, j) for j, p_ in enumerate(ps))))
        meths.append("f%d" % i)
    L.append(ind + "};")
    if where == 1:
        L.append("    };")
    L += ["  }", "}", "__begin_publish", "%s *make_w();" % scope, "__end_publish"]
    # class templates whose default arguments depend on earlier (possibly defaulted) parameters, exported through typedefs
    L += ["template<class A, class B = A, class C = B *> struct Tri {", "__published:", "  C get_c() const;", "  B get_b(A a, C *pc);", "  A a; B b; C c;", "};",
          "template<class T, int R = 2, int C2 = R + 1> struct Grid {", "__published:", "  typedef T Row[C2];", "  typedef T Col[R];", "  Row *rows();", "  int n(Col &a) const;", "  T cells[R][C2];", "};",
          "__begin_publish"]
    tds = ["typedef Tri<char> TriC;", "typedef Tri<Tag, long> TriTL;", "typedef Tri<int, Z *, const Tag *> TriF;", "typedef Grid<short> GridS;", "typedef Grid<Tag, 4> GridT4;",
           "typedef Grid<long, 1, 7> GridL;"]
    L += [t for i, t in enumerate(tds) if f[i % len(f)] or i == case["where"]] or tds[:1]
    L += ["__end_publish"]
    return "\n".join(x for x in L if x) + "\n", scope, meths


def judge_scoped(case, ctx):
    src, scope, meths = render_scoped(case, frozenset(ctx.disabled_tags))
    with run.Scratch("c06n") as d:
        run.write(os.path.join(d, "l.h"), src)
        run.write(os.path.join(d, "t.cxx"), '#define __published public\n#define __begin_publish\n#define __end_publish\n#include "l.h"\n')
        g = igate.gxx(d, ["-fsyntax-only", "t.cxx"])
        if g.rc != 0:
            return Outcome(discard=True, classes=["scoped.invalid"])
        r = igate.interrogate(d, ["l.h"], opts=["-c", "-fnames"])
        if r.abnormal or r.rc != 0:
            return Outcome(ok=False, key="scoped-rejected", detail="g++ accepts the TU but interrogate fails (%s): %s\n%s" % (r.kind(), r.err.decode("latin-1")[-400:], src))
        db = igate.load_db(os.path.join(d, "l.in"))
        Ty = {t["index"]: t for t in db["types"]}
        W = {w["index"]: w for w in db["wrappers"]}
        checks = []
        for fn in db["functions"]:
            if fn["scoped_name"].rsplit("::", 1)[0] != scope or fn["name"] not in meths:
                continue
            proto = fn["prototype"].strip().rstrip(";")
            key = "%s::%s(" % (scope, fn["name"])
            if proto.count(key) != 1 or "\n" in proto:
                continue
            checks.append((fn["name"], proto.replace(key, "(%s::*)(" % scope)))
        n_w = len(checks)
        for fn in db["functions"]:
            sc = fn["scoped_name"].rsplit("::", 1)[0]
            if sc.startswith(("Tri<", "Grid<")) and fn["name"] in ("get_c", "get_b", "rows", "n"):
                proto = fn["prototype"].strip().rstrip(";")
                key = "%s::%s(" % (sc, fn["name"])
                if proto.count(key) == 1 and "\n" not in proto:
                    checks.append(("%s::%s" % (sc, fn["name"]), proto.replace(key, "(%s::*)(" % sc), sc))
        if n_w != len(meths):
            return Outcome(ok=False, key="scoped-missing", detail="%d published methods of %s, %d in the database\n%s" % (len(meths), scope, len(checks), src))
        tu = ['#define __published public', '#define __begin_publish', '#define __end_publish', '#include "l.h"', '#include <type_traits>']
        for chk in checks:
            name, sig = chk[0], chk[1]
            sc = chk[2] if len(chk) > 2 else None
            if sc is None:
                tu.append('static_assert(std::is_same<decltype(&%s::%s), %s>::value, "%s");' % (scope, name, sig, name))
            else:
                tu.append('static_assert(std::is_same<decltype(&%s), %s>::value, "template member");' % (name, sig))
        run.write(os.path.join(d, "chk.cxx"), "\n".join(tu) + "\n")
        g = igate.gxx(d, ["-fsyntax-only", "chk.cxx"])
        if g.rc != 0:
            err = g.err.decode("latin-1")
            m = re.search(r"chk\.cxx:(\d+):", err)
            line = tu[int(m.group(1)) - 1] if m else ""
            return Outcome(ok=False, key="scoped-lookup", classes=["scoped"],
                           detail="the types interrogate records for a method do not denote the declared ones:\n  %s\n%s\nsource:\n%s" % (line, "\n".join(l for l in err.splitlines() if "error" in l)[:400], src))
    feats = tuple(i for i, x in enumerate(case["flags"]) if x)
    return Outcome(ok=True, nontrivial=["scoped|%s|%d|%s" % (feats, case["where"], sorted({n for m in case["meths"] for n in m}))], classes=["scoped", "scoped.where%d" % case["where"]],
                   sample={"scope": scope, "declared": [l.strip() for l in src.splitlines() if "f0(" in l or "f1(" in l][:2], "recorded": [c[1] for c in checks[:2]], "template_members_checked": len(checks) - n_w})


def _decl_text(ents):
    return "\n".join(e["text"] for e in ents[:40])


def stub_headers():
    out = []
    for p in sorted(glob.glob(os.path.join(build.REPO, "parser-inc", "*"))):
        if os.path.isfile(p):
            out.append(os.path.basename(p))
    return out


def judge_stub(case, ctx):
    name = case["stub"]
    with run.Scratch("c06s") as d:
        run.write(os.path.join(d, "t.cxx"), "#include <%s>\n" % name)
        g = igate.gxx(d, ["-fsyntax-only", "-I", run.PARSER_INC, "-nostdinc", "-nostdinc++", "t.cxx"])
        if g.rc != 0:
            return Outcome(discard=True)
        r = igate.parse_file(d, ["t.cxx"], opts=["-D__cplusplus=201703L", "-S" + run.PARSER_INC], std=False)
    err = r.err.decode("latin-1")
    if r.abnormal or r.rc != 0 or re.search(r": error:", err):
        return Outcome(ok=False, key="stub:" + name, detail="stub header <%s> is accepted by g++ but parse_file reports: %s" % (name, err[-400:]))
    return Outcome(ok=True, nontrivial=["stub|" + name], classes=["stub"], sample={"stub": name})


def worker(ctx, widx, stage, stats):
    if stage == "decls":
        f = core.hypothesis_search(None, ctx, _strategy(ctx), judge, ctx.pick(400, 5000), ctx.seed * 1000 + widx, stats,
                                   time_budget=ctx.pick(90, 900))
        return [f] if f else []
    if stage == "scoped":
        f = core.hypothesis_search(None, ctx, _scoped_strategy(ctx), judge, ctx.pick(150, 3000), ctx.seed * 1000 + 500 + widx, stats,
                                   time_budget=ctx.pick(80, 900))
        return [f] if f else []
    fails = []
    names = stub_headers()
    for i, n in enumerate(names):
        if i % 2 != widx:
            continue
        if not ctx.thorough and (i // 2) % 3 != ctx.seed % 3:
            continue
        case = {"stub": n}
        out = judge_stub(case, ctx)
        if core.account(stats, out, ctx, case):
            fails.append(dict(case=case, detail=out.detail, key=out.key))
            if len(fails) >= 3:
                break
    return fails
