"""C10 -- implicit special members and class traits follow the C++ rules.
Differential against g++ (type traits and SFINAE probes of the wrapper's own new-expressions) over generated
class hierarchies; interrogate's judgement is read from parse_file -p (trait expressions) and from the database."""
import itertools
import os
import re

from hypothesis import strategies as st

from .. import core, idbfmt, igate, run
from ..core import Outcome

ID = "C10"
LEVEL = "exploration"
ENGINE = "hypothesis + exhaustive enumeration"
TECHNIQUE = "property-based differential testing against g++ type traits/SFINAE probes over Hypothesis-generated class hierarchies, plus exhaustive single-class special-member combinations"
RULE = ("Hypothesis generates batches of classes over the special-member alphabet: default/copy/move constructor and destructor each absent/"
        "user-provided/=default/=delete in public/protected/private; converting constructors; const, reference, array and class-type "
        "members with and without initialisers; virtual/pure/override/final functions overridden at various depths; single, multiple and "
        "virtual bases with every access; final classes. g++ compiles a probe TU giving is_abstract, is_polymorphic, is_destructible and "
        "whether `new T()` / `new T(const T&)` are well-formed from outside the class; interrogate must agree through (i) "
        "__is_abstract/__is_polymorphic/__is_constructible/__is_destructible evaluated by parse_file and (ii) the -promiscuous "
        "database (default-constructor wrapper, copy_constructor wrapper, destructor, no constructor for abstract classes). The thorough "
        "tier enumerates all single-class combinations of (default ctor, copy ctor, destructor) state x access. Non-trivial: a class whose "
        "verdict depends on a base or a member (it has bases or class-type/const/reference members); distinct by feature signature.")
ASSUMPTIONS = ["g++ 12 and clang++ 14 (-std=gnu++17) are the reference: a verdict is used only where both agree; batches either rejects are discarded", "abstract classes with virtual bases are not judged on destructibility/constructibility (CWG 1658 corner)", "'C++ provides an accessible one' is judged from outside the class, as the generated wrappers use it (new T(), new T(const T&))",
               "triviality and layout traits are not part of the statement"]
NONTRIVIAL_FLOOR = 20

FORMS = ["none", "user", "default", "delete"]
ACC = ["public", "protected", "private"]
MEMBERS = ["int", "cint", "cint_init", "ref", "obj", "objarr", "ptr", "cobj", "mutable_int", "static_cint"]


def stages(ctx):
    s = [("random", 16)]
    if ctx.thorough:
        s.append(("enum", 8))
    return s


def _special():
    return st.builds(lambda f, a: {"form": f, "acc": a}, st.sampled_from([0, 0, 0, 1, 2, 3]), st.sampled_from([0, 0, 0, 1, 2]))


def _class():
    base = st.builds(lambda c, a, v: {"c": c, "acc": a, "virt": v}, st.integers(0, 20), st.sampled_from([0, 0, 0, 1, 2]), st.sampled_from([False, False, True]))
    member = st.builds(lambda k, c: {"k": k, "c": c}, st.sampled_from(MEMBERS), st.integers(0, 20))
    vfunc = st.builds(lambda k, n: {"k": k, "n": n}, st.sampled_from(["virtual", "pure", "override", "override", "override_ne", "final", "plain"]), st.integers(0, 20))
    return st.builds(lambda kw, fin, bases, d, c, m, o, dt, dv, members, vf, dpure, noacc: {
        "kw": kw, "final": fin, "bases": bases, "dctor": d, "cctor": c, "mctor": m, "octor": o, "dtor": dt, "dvirt": dv, "members": members, "vf": vf,
        "dpure": dpure, "noacc": noacc},
                     st.integers(0, 1), st.sampled_from([False, False, False, True]), st.lists(base, max_size=2), _special(), _special(),
                     st.sampled_from([0, 0, 0, 1, 3]), st.booleans(), _special(), st.booleans(), st.lists(member, max_size=3), st.lists(vfunc, max_size=3),
                     st.sampled_from([False, False, False, True]), st.sampled_from([False, False, True]))


def _plain(bases):
    none = {"form": 0, "acc": 0}
    return {"kw": 1, "final": False, "bases": bases, "dctor": dict(none), "cctor": dict(none), "mctor": 0, "octor": False, "dtor": dict(none), "dvirt": False,
            "members": [], "vf": []}


def _with_vchain(cs, pick, acc):
    """appends, over one of the generated classes V: M : virtual V {}; D : M {}; L, R : virtual V {}; DD : L, R {} -- classes that
    declare nothing themselves, so that everything they are comes from the (possibly indirect) virtual base"""
    v = pick % len(cs)
    n = len(cs)
    vb = {"c": v, "acc": acc, "virt": True}
    return cs + [_plain([vb]), _plain([{"c": n, "acc": 0, "virt": False}]), _plain([dict(vb)]), _plain([dict(vb, acc=0)]),
                 _plain([{"c": n + 2, "acc": 0, "virt": False}, {"c": n + 3, "acc": 0, "virt": False}])]


def _strategy(ctx):
    plain = st.builds(lambda cs: {"classes": cs}, st.lists(_class(), min_size=1, max_size=ctx.pick(8, 12)))
    chained = st.builds(lambda cs, pick, acc: {"classes": _with_vchain(cs, pick, acc)}, st.lists(_class(), min_size=1, max_size=ctx.pick(6, 10)),
                        st.integers(0, 20), st.sampled_from([0, 0, 1, 2]))
    return st.one_of(plain, plain, chained)


def render(case, off=frozenset()):
    """-> (header text, list of class names, per-class feature sets)"""
    lines = ["// generated class hierarchy"]
    names, feats, info = [], [], []
    for i, c in enumerate(case["classes"]):
        name = "K%d" % i
        f = set()
        bases = []
        seen = set()
        for b in c["bases"]:
            if i == 0:
                break
            bi = b["c"] % i
            if bi in seen or info[bi]["final"]:
                continue
            if info[bi]["has_vbase"]:
                if info[bi]["vb_transparent"]:
                    # the intermediate classes declare nothing of their own, so their implicit members already reflect the virtual
                    # base: the known finding (indirect virtual bases are not looked at directly) cannot show here
                    f.add("base.indirect_virtual.transparent")
                elif "base.indirect_virtual" in off:
                    continue
                else:
                    f.add("base.indirect_virtual")
            seen.add(bi)
            acc = ACC[b["acc"]]
            spelled = True
            if c.get("noacc") and acc == ["private", "public"][c["kw"]] and len(bases) % 2 == 0:
                spelled = False         # the default access of the class key, not written out ('struct D : virtual B')
                f.add("base.default_access")
            bases.append((bi, acc, b["virt"], spelled))
            f.add("base." + acc + (".virtual" if b["virt"] else ""))
        head = "%s %s%s" % (["class", "struct"][c["kw"]], name, " final" if c["final"] else "")
        if bases:
            head += " : " + ", ".join(("virtual " if v else "") + (a + " " if sp_ else "") + "K%d" % bi for bi, a, v, sp_ in bases)
        bases = [(bi, a, v) for bi, a, v, sp_ in bases]
        body = []
        cur = [None]

        def sec(acc):
            if cur[0] != acc:
                body.append("%s:" % acc)
                cur[0] = acc
        d, cc, dt = c["dctor"], c["cctor"], c["dtor"]
        own_pure_dtor = False
        if FORMS[d["form"]] != "none":
            sec(ACC[d["acc"]])
            body.append("  %s()%s;" % (name, {"user": "", "default": " = default", "delete": " = delete"}[FORMS[d["form"]]]))
            f.add("dctor.%s.%s" % (FORMS[d["form"]], ACC[d["acc"]]))
        if FORMS[cc["form"]] != "none":
            sec(ACC[cc["acc"]])
            body.append("  %s(const %s &)%s;" % (name, name, {"user": "", "default": " = default", "delete": " = delete"}[FORMS[cc["form"]]]))
            f.add("cctor.%s.%s" % (FORMS[cc["form"]], ACC[cc["acc"]]))
        if FORMS[c["mctor"]] != "none":
            sec("public")
            body.append("  %s(%s &&)%s;" % (name, name, {"user": "", "delete": " = delete"}[FORMS[c["mctor"]]]))
            f.add("mctor." + FORMS[c["mctor"]])
        if c["octor"]:
            sec("public")
            body.append("  %s(int, int);" % name)
            f.add("octor")
        if FORMS[dt["form"]] != "none" or c["dvirt"]:
            sec(ACC[dt["acc"]])
            form = FORMS[dt["form"]] if FORMS[dt["form"]] != "none" else "user"
            if form == "delete" and "virt.deleted_dtor" in off and any(info[bi]["poly"] for bi, a, v in bases):
                form = "user"       # a deleted destructor overriding a virtual one is a deleted virtual function (known finding)
            dvirt = c["dvirt"] and not (form == "delete" and "virt.deleted_dtor" in off)
            own_pure_dtor = bool(c.get("dpure") and dvirt and form == "user")
            body.append("  %s~%s()%s;" % ("virtual " if dvirt else "", name, " = 0" if own_pure_dtor else {"user": "", "default": " = default", "delete": " = delete"}[form]))
            f.add("dtor.%s.%s%s" % (form, ACC[dt["acc"]], ".virtual" if dvirt else ""))
            if own_pure_dtor:
                f.add("dtor.pure")
            if dvirt and form == "delete":
                f.add("virt.deleted_dtor")
        pures = []        # pure virtual names visible from bases (for overrides)
        for bi, a, v in bases:
            pures += info[bi]["pure_names"]
        my_pure = []
        declared = set()
        for vf in c["vf"]:
            k = vf["k"]
            sec("public")
            if k in ("override", "override_ne") and pures:
                nm = pures[vf["n"] % len(pures)]
                if nm in declared:
                    continue
                declared.add(nm)
                body.append("  int %s() %soverride;" % (nm, "noexcept " if k == "override_ne" else ""))
                f.add("virt.override" + (".noexcept" if k == "override_ne" else ""))
            elif k == "pure":
                nm = "vf%d_%d" % (i, vf["n"] % 3)
                if nm in declared:
                    continue
                declared.add(nm)
                body.append("  virtual int %s() = 0;" % nm)
                my_pure.append(nm)
                f.add("virt.pure")
            elif k == "virtual":
                nm = "vf%d_%d" % (i, vf["n"] % 3)
                if nm in declared:
                    continue
                declared.add(nm)
                body.append("  virtual int %s();" % nm)
                f.add("virt.virtual")
            elif k == "final" and pures:
                nm = pures[vf["n"] % len(pures)]
                if nm in declared:
                    continue
                declared.add(nm)
                body.append("  int %s() final;" % nm)
                f.add("virt.final")
            elif k == "plain":
                body.append("  int pf%d_%d();" % (i, vf["n"] % 3))
        for j, m in enumerate(c["members"]):
            sec(["public", "private", "protected"][j % 3])
            k = m["k"]
            mn = "d%d_%d" % (i, j)
            tgt = m["c"] % i if i else None
            if k in ("obj", "objarr", "cobj") and (tgt is None or info[tgt]["abstract_decl"]):
                k = "int"
            if k == "int":
                body.append("  int %s;" % mn)
            elif k == "cint":
                body.append("  const int %s;" % mn)
            elif k == "cint_init":
                body.append("  const int %s = 3;" % mn)
            elif k == "ref":
                body.append("  int &%s;" % mn)
            elif k == "obj":
                body.append("  K%d %s;" % (tgt, mn))
            elif k == "cobj":
                body.append("  const K%d %s;" % (tgt, mn))
            elif k == "objarr":
                body.append("  K%d %s[2];" % (tgt, mn))
            elif k == "ptr":
                body.append("  %s *%s;" % (name, mn))
            elif k == "mutable_int":
                body.append("  mutable int %s;" % mn)
            elif k == "static_cint":
                body.append("  static const int %s = 4;" % mn)
            f.add("member." + k)
        overridden = {nm for nm in declared}
        remaining = [p for p in pures if p not in overridden]
        info.append({"final": c["final"], "pure_names": sorted(set(remaining + my_pure)), "abstract_decl": bool(remaining or my_pure or own_pure_dtor),
                     "has_vbase": any(v or info[bi]["has_vbase"] for bi, a, v in bases),
                     "vb_transparent": (any(v or info[bi]["has_vbase"] for bi, a, v in bases)
                                        and FORMS[d["form"]] == "none" and FORMS[cc["form"]] == "none" and FORMS[c["mctor"]] == "none" and not c["octor"]
                                        and FORMS[dt["form"]] == "none" and not c["dvirt"] and not declared and not my_pure
                                        and all(info[bi]["vb_transparent"] for bi, a, v in bases if info[bi]["has_vbase"])),
                     "poly": bool(c["dvirt"] or any(x.startswith("virt.") for x in f) or any(info[bi]["poly"] for bi, a, v in bases))})
        lines.append(head + " {")
        lines += body
        lines.append("};")
        names.append(name)
        feats.append(f)
    return "\n".join(lines) + "\n", names, feats


PROBE = r'''
#include <type_traits>
#include <utility>
#include <cstdio>
#include "l.h"
template<class T, class = void> struct can_new_default : std::false_type {};
template<class T> struct can_new_default<T, std::void_t<decltype(new T())>> : std::true_type {};
template<class T, class = void> struct can_new_copy : std::false_type {};
template<class T> struct can_new_copy<T, std::void_t<decltype(new T(std::declval<const T &>()))>> : std::true_type {};
template<class T> void probe(const char *n) {
  printf("%s abstract=%d poly=%d destr=%d dflt=%d copy=%d sdflt=%d scopy=%d\n", n, (int)std::is_abstract<T>::value, (int)std::is_polymorphic<T>::value,
         (int)std::is_destructible<T>::value, (int)can_new_default<T>::value, (int)can_new_copy<T>::value,
         (int)std::is_default_constructible<T>::value, (int)std::is_copy_constructible<T>::value);
}
int main() {
%s
  return 0;
}
'''


def gxx_traits(d, names, compiler="g++"):
    run.write(os.path.join(d, "probe.cxx"), PROBE.replace("%s\n  return 0;", "\n".join('  probe<%s>("%s");' % (n, n) for n in names) + "\n  return 0;"))
    r = igate.gxx(d, ["-O0", "-I", ".", "probe.cxx", "-o", "probe"], compiler=compiler)
    if r.rc != 0:
        return None, r.err.decode("latin-1")
    r2 = run.run([os.path.join(d, "probe")], cwd=d)
    out = {}
    for ln in r2.out.decode().split("\n"):
        m = re.match(r"(\w+) abstract=(\d) poly=(\d) destr=(\d) dflt=(\d) copy=(\d) sdflt=(\d) scopy=(\d)", ln)
        if m:
            out[m.group(1)] = dict(abstract=int(m.group(2)), poly=int(m.group(3)), destr=int(m.group(4)), dflt=int(m.group(5)), copy=int(m.group(6)),
                                   sdflt=int(m.group(7)), scopy=int(m.group(8)))
    return out, ""


def igate_traits(d, names):
    qs = []
    for n in names:
        qs += ["__is_abstract(%s)" % n, "__is_polymorphic(%s)" % n, "__is_destructible(%s)" % n, "__is_constructible(%s)" % n,
               "__is_constructible(%s, const %s &)" % (n, n)]
    r = run.run([os.path.join(os.path.dirname(igate.build.tool("parse_file")), "parse_file"), "-p", "-D__cplusplus=201703L", "l.h"], cwd=d,
                stdin=("\n".join(qs) + "\n").encode(), timeout=60)
    if r.abnormal or r.rc != 0:
        return None, r
    vals = re.findall(r"value is (\S+)", r.out.decode("latin-1"))
    if len(vals) != len(qs):
        return None, r
    out = {}
    for i, n in enumerate(names):
        v = vals[i * 5:i * 5 + 5]
        out[n] = dict(abstract=v[0], poly=v[1], destr=v[2], dflt=v[3], copy=v[4])
    return out, r


def judge(case, ctx):
    header, names, feats = render(case, frozenset(ctx.disabled_tags))
    with run.Scratch("c10") as d:
        run.write(os.path.join(d, "l.h"), header)
        gx, gerr = gxx_traits(d, names)
        if gx is None:
            return Outcome(discard=True, detail=gerr[:300])
        # a second compiler: only verdicts on which g++ and clang++ agree are used as the oracle
        cx, cerr = gxx_traits(d, names, compiler="clang++")
        if cx is None:
            return Outcome(discard=True, detail=cerr[:300])
        for n in names:
            for key in ("abstract", "poly", "destr", "dflt", "copy", "sdflt", "scopy"):
                if gx[n][key] != cx[n][key]:
                    gx[n]["disagree"] = gx[n].get("disagree", set()) | {key}
        it, r = igate_traits(d, names)
        if it is None:
            if r.abnormal:
                return Outcome(ok=False, key="crash:" + r.kind(), detail="parse_file -p died (%s): %s\n%s" % (r.kind(), r.err.decode("latin-1")[-300:], header))
            return Outcome(ok=False, key="parse-error", detail="parse_file rejects a header g++ accepts: %s\n%s" % (r.err.decode("latin-1")[-400:], header))
        rr = run.run([igate.build.tool("interrogate"), "-oc", "o.cxx", "-od", "o.in", "-module", "m", "-library", "l", "-python-native", "-promiscuous",
                     "-D__cplusplus=201703L", "l.h"], cwd=d, timeout=60, env=run.base_env({"SOURCE_DATE_EPOCH": "1"}))
        if rr.abnormal or rr.rc != 0:
            return Outcome(ok=False, key="igate:" + rr.kind(), detail="interrogate failed (%s): %s\n%s" % (rr.kind(), rr.err.decode("latin-1")[-300:], header))
        db = igate.load_db(os.path.join(d, "o.in"))
    classes = sorted(set().union(*feats)) if feats else []
    T = {t["scoped_name"]: t for t in db["types"] if not (t["flags"] & idbfmt.TF["wrapped"])}
    F = {f["index"]: f for f in db["functions"]}
    W = {w["index"]: w for w in db["wrappers"]}
    for n, f in zip(names, feats):
        g, i = gx[n], it[n]
        for key, label in (("abstract", "abstract"), ("poly", "polymorphic"), ("destr", "destructible"), ("dflt", "default-constructible"),
                           ("copy", "copy-constructible")):
            if key in g.get("disagree", ()) or (key == "dflt" and "sdflt" in g.get("disagree", ())) or (key == "copy" and "scopy" in g.get("disagree", ())):
                continue      # the two reference compilers disagree: not decided
            if key in ("destr", "dflt", "copy") and g["abstract"] and any((x.endswith(".virtual") and x.startswith("base.")) or x.startswith("base.indirect_virtual") for x in f):
                continue      # CWG 1658: an abstract class does not construct/destroy its virtual bases -- corner not judged
            if key == "dflt" and g["dflt"] != g["sdflt"]:
                continue      # new T() and std::is_default_constructible differ (inaccessible destructor): not decided
            if key == "copy" and g["copy"] != g["scopy"]:
                continue
            if str(g[key]) != i[key]:
                return Outcome(ok=False, key="trait:%s:%d" % (key, g[key]), classes=classes,
                               detail="%s: interrogate says %s=%s, the C++ compiler says %d\n%s" % (n, label, i[key], g[key], header))
        t = T.get(n)
        if t is not None and (t["flags"] & idbfmt.TF["fully_defined"]):
            ctor_ws = []
            for fi in t["constructors"]:
                fn = F.get(fi)
                if fn:
                    ctor_ws += [W[w] for w in fn["python_wrappers"] if w in W]
            has_default = any(len(w["parameters"]) == 0 for w in ctor_ws)
            has_copy = any(w["flags"] & idbfmt.WF["copy_constructor"] for w in ctor_ws)
            if g["abstract"] and ctor_ws:
                return Outcome(ok=False, key="export:ctor-of-abstract", classes=classes, detail="%s is abstract but %d constructor wrapper(s) are exported\n%s" % (n, len(ctor_ws), header))
            if g["dflt"] != g["sdflt"] or g["copy"] != g["scopy"] or g.get("disagree"):
                continue
            if g["abstract"] and any((x.endswith(".virtual") and x.startswith("base.")) or x.startswith("base.indirect_virtual") for x in f):
                continue
            if has_default != bool(g["dflt"]):
                return Outcome(ok=False, key="export:default-ctor:%d" % g["dflt"], classes=classes,
                               detail="%s: a default-constructor wrapper is %s, but `new %s()` is %s in C++\n%s" % (
                                   n, "exported" if has_default else "missing", n, "well-formed" if g["dflt"] else "ill-formed", header))
            if has_copy != bool(g["copy"]):
                return Outcome(ok=False, key="export:copy-ctor:%d" % g["copy"], classes=classes,
                               detail="%s: a copy-constructor wrapper is %s, but `new %s(const %s&)` is %s in C++\n%s" % (
                                   n, "exported" if has_copy else "missing", n, n, "well-formed" if g["copy"] else "ill-formed", header))
            if (t["destructor"] != 0) != bool(g["destr"]):
                return Outcome(ok=False, key="export:dtor:%d" % g["destr"], classes=classes,
                               detail="%s: destructor %s in the database, is_destructible=%d in C++\n%s" % (n, "recorded" if t["destructor"] else "absent", g["destr"], header))
    nt = []
    for n, f in zip(names, feats):
        if any(x.startswith(("base.", "member.obj", "member.cobj", "member.cint", "member.ref", "virt.override", "virt.final")) for x in f):
            nt.append(",".join(sorted(f)))
    return Outcome(ok=True, nontrivial=nt, classes=classes, sample={"header": header.split("\n")[:24], "g++": {n: {k: v for k, v in gx[n].items() if k != "disagree"} for n in names[:3]}})


def enum_cases():
    """all single-class combinations of (default ctor, copy ctor, destructor) form x access"""
    combos = list(itertools.product(range(4), range(3)))
    cases = []
    for d, c, t in itertools.product(combos, combos, combos):
        if FORMS[d[0]] == "none" and d[1] != 0:
            continue
        if FORMS[c[0]] == "none" and c[1] != 0:
            continue
        if FORMS[t[0]] == "none" and t[1] != 0:
            continue
        cases.append({"kw": 0, "final": False, "bases": [], "dctor": {"form": d[0], "acc": d[1]}, "cctor": {"form": c[0], "acc": c[1]}, "mctor": 0,
                      "octor": False, "dtor": {"form": t[0], "acc": t[1]}, "dvirt": False, "members": [], "vf": []})
    return cases


def worker(ctx, widx, stage, stats):
    if stage == "random":
        f = core.hypothesis_search(None, ctx, _strategy(ctx), judge, ctx.pick(350, 4000), ctx.seed * 1000 + widx, stats,
                                   time_budget=ctx.pick(100, 1000))
        return [f] if f else []
    cases = enum_cases()
    fails = []
    chunk = [cases[i:i + 12] for i in range(0, len(cases), 12)]
    for ci, ch in enumerate(chunk):
        if ci % 8 != widx:
            continue
        case = {"classes": ch}
        out = judge(case, ctx)
        if core.account(stats, out, ctx, case):
            for one in ch:
                o1 = judge({"classes": [one]}, ctx)
                if not o1.ok and not o1.discard:
                    fails.append(dict(case={"classes": [one]}, detail=o1.detail, key=o1.key))
                    break
            break
    stats.extra["exhaustive_single_class_combinations"] = len(cases)
    return fails
