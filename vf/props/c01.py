"""C01 -- handle-style wrappers (-c, -python) behave exactly like the C++ they wrap.
Differential: a generated call plan is executed twice against the same instrumented library -- once by a generated native C++
driver, once through the interrogate wrappers by a foreign-function client that knows only the database (ctypes for -c, the
extension module for -python).  The library's own trace (which overload ran, with which argument values, on which object) and
every returned value must be identical."""
import json
import os
import re
import struct

from hypothesis import strategies as st

from .. import aux, bindgen, build, core, hgen, idbfmt, igate, run
from ..core import Outcome
from . import c03

ID = "C01"
LEVEL = "exploration"
TECHNIQUE = ("differential property-based testing: Hypothesis generates class libraries with instrumented bodies and call plans (stateful: "
             "objects are created, passed, upcast, mutated, destroyed); the same plan runs natively (generated C++ driver) and through the "
             "-c / -python wrappers chosen from the database; traces and returned values are compared")
RULE = ("Hypothesis generates libraries (hgen: overload sets, trailing defaults, static/const/virtual methods, operators, enums, strings, "
        "object pointers/references/values, inheritance with upcasts, data members, narrow/wide arithmetic overload pairs, C strings through a "
        "typedef, a class template exported through typedef'd instantiations) x option sets {-c,-python} x {-string} x "
        "{-fnames,-true-names} x {-promiscuous} x a call plan of up to 30 steps with boundary-value arguments (every integer width at "
        "min/max, float/double specials, empty and 8-bit strings, null pointers). For each step the wrapper is selected from the database "
        "alone (function name, parameter count and database types). Oracle: the CALL lines written by the library's instrumented bodies "
        "(entity#overload, this, argument values, result) and the RET value of every step are identical in the native and the wrapped run. "
        "Non-trivial: a plan with >= 5 executed wrapper calls including a method call on an object and a default-argument or overloaded "
        "variant; distinct by (back-end, options, kinds of steps, parameter kinds).")
ASSUMPTIONS = ["-true-names cannot be combined with -fnames (interrogate rejects it) and without -fnames the wrappers are static functions reachable only "
               "through a function-pointer table whose registration is compiled out (#if 0 in write_code): such wrappers cannot be called by any client, so the lattice uses -fnames / default naming",
               "an object returned by value is compared by logical identity (tag of its source) and state, not by address",
               "the destruction order of temporaries is not compared (only CALL lines and returned values)",
               "without -string, wrappers that take or return strings are not called (they need std::string objects the client cannot make)"]
NONTRIVIAL_FLOOR = 6

DBPRIM = {"bool": "bool", "char": "char", "signed char": "signed char", "unsigned char": "unsigned char", "short": "short int",
          "unsigned short": "unsigned short int", "int": "int", "unsigned int": "unsigned int", "long": "long int",
          "unsigned long": "unsigned long int", "long long": "long long int", "unsigned long long": "unsigned long long int",
          "float": "float", "double": "double"}
RANGE = {"bool": (0, 1), "char": (-128, 127), "signed char": (-128, 127), "unsigned char": (0, 255), "short": (-2 ** 15, 2 ** 15 - 1),
         "unsigned short": (0, 2 ** 16 - 1), "int": (-2 ** 31, 2 ** 31 - 1), "unsigned int": (0, 2 ** 32 - 1), "long": (-2 ** 63, 2 ** 63 - 1),
         "unsigned long": (0, 2 ** 64 - 1), "long long": (-2 ** 63, 2 ** 63 - 1), "unsigned long long": (0, 2 ** 64 - 1)}
FLOATS = [0.0, -0.0, 1.5, -2.25, 1e-3, 3.4028234663852886e38, 1.17549435e-38, 16777217.0, -1e30, 0.1]
DOUBLES = [0.0, -0.0, 1.5, -2.25, 0.1, 1.7976931348623157e308, 2.2250738585072014e-308, 9007199254740993.0, -1e300, 1e-5]
STRINGS = [b"", b"a", b"hello world", b"caf\xc3\xa9", b"\xff\xfe\x01", b"tab\tnl\n\"q\"\\", b"x" * 200, b"%s%n", b"0"]


def stages(ctx):
    return [("plans", 16)]


def _strategy(ctx):
    step = st.lists(st.integers(0, 10 ** 6), min_size=10, max_size=10)
    return st.builds(lambda raw, be, string, tn, prom, steps: {"raw": raw, "backend": be, "string": string, "true_names": tn, "promiscuous": prom, "steps": steps},
                     hgen.raw_libraries(max_classes=4, max_funcs=4), st.sampled_from(["-c", "-c", "-python"]), st.sampled_from([True, True, True, False]),
                     st.just(False), st.booleans(), st.lists(step, min_size=4, max_size=30))


# ---- model side -------------------------------------------------------------------------------------------------

def accessible(vis, promiscuous):
    return vis == "published" or (promiscuous and vis == "public")


def callables(lib, promiscuous):
    """everything the plan may call, with its native spelling"""
    out = []
    for c in lib.classes:
        q = c["qname"]
        ctors = [m for m in c["members"] if m["kind"] == "ctor"]
        for m in c["members"]:
            k = m["kind"]
            if k == "ctor" and not c.get("abstract") and m["form"] != "delete" and accessible(m["vis"], promiscuous):
                out.append(dict(kind="ctor", cls=c, ent=m, ov=0, fname=q + "::" + c["name"], params=list(m["params"]), ndef=0, ret=None, label="E%d#0" % m["id"] if m["form"] == "user" else None))
            elif k == "method" and m.get("virt") != "pure" or (k == "method" and m.get("virt") == "pure"):
                for ov in m["ovs"]:
                    if not accessible(ov.get("vis", m["vis"]), promiscuous):
                        continue
                    ndef = sum(1 for x in ov["defaults"] if x is not None)
                    out.append(dict(kind="static" if m.get("static") else "method", cls=c, ent=m, ov=ov["ov"], fname=q + "::" + m["name"], params=list(ov["params"]),
                                    ndef=ndef, ret=ov["ret"], const=bool(m.get("const")), name=m["name"]))
            elif k == "field" and not m["static"] and accessible(m["vis"], promiscuous) and m["t"].kind in ("prim", "enum", "str", "cstr"):
                out.append(dict(kind="get", cls=c, ent=m, ov=0, fname=q + "::get_" + m["name"], params=[], ndef=0, ret=m["t"], name=m["name"]))
                if m["t"].kind != "cstr":            # a const char * member would keep pointing into the caller's buffer
                    out.append(dict(kind="set", cls=c, ent=m, ov=0, fname=q + "::set_" + m["name"], params=[m["t"]], ndef=0, ret=hgen.Type("void"), name=m["name"]))
        if not ctors and not c.get("abstract"):
            out.append(dict(kind="ctor", cls=c, ent=None, ov=0, fname=q + "::" + c["name"], params=[], ndef=0, ret=None, label=None))
    for g in lib.globals:
        # global variables are exported through synthesised get_/set_ functions
        if (g.get("inpub") or promiscuous) and g["t"].kind in ("prim", "enum", "cstr"):
            out.append(dict(kind="gget", cls=None, ent=g, ov=0, fname="get_" + g["name"], params=[], ndef=0, ret=g["t"], name=g["name"]))
            if not g["const"] and g["t"].kind != "cstr":
                out.append(dict(kind="gset", cls=None, ent=g, ov=0, fname="set_" + g["name"], params=[g["t"]], ndef=0, ret=hgen.Type("void"), name=g["name"]))
    for fn in lib.funcs:
        if not (fn.get("inpub") or promiscuous):
            continue
        for ov in fn["ovs"]:
            ndef = sum(1 for x in ov["defaults"] if x is not None)
            out.append(dict(kind="func", cls=None, ent=fn, ov=ov["ov"], fname=fn["name"], params=list(ov["params"]), ndef=ndef, ret=ov["ret"], name=fn["name"]))
    return out


TMPL_CLASSES, TMPL_FREE = hgen.template_classes()
ALIAS = {a: c["qname"] for c, _ in TMPL_CLASSES for a in c["aliases"]}


def modelcat(t, string):
    """what the database should say about a parameter of model type t (C calling convention)"""
    if t.kind == "prim":
        return ("prim", DBPRIM[t.name])
    if t.kind == "enum":
        return ("enum", t.ref["qname"])
    if t.kind in ("cstr", "str"):
        return ("str",) if string or t.kind == "cstr" else ("ptr", "std::string")
    if t.kind == "obj":
        return ("ptr", t.ref["qname"])
    if t.kind == "void":
        return ("void",)
    return ("?",)


def dbcat(T, ti, string):
    t = T.get(ti)
    if t is None:
        return ("void",)
    if t["atomic_token"] == 7:
        return ("str",)
    f = t["flags"]
    if f & idbfmt.TF["wrapped"]:
        if f & idbfmt.TF["pointer"]:
            # strip pointer, then const
            u = T[t["wrapped_type"]]
            while u["flags"] & idbfmt.TF["wrapped"] and u["flags"] & idbfmt.TF["const"]:
                u = T[u["wrapped_type"]]
            if u["atomic_token"] == 5 and not string:
                return ("str",)               # char const *
            if u["atomic_token"] == 5:
                return ("str",)
            while u["flags"] & idbfmt.TF["typedef"] and u["wrapped_type"] in T:
                u = T[u["wrapped_type"]]
            n = u["scoped_name"].replace("std::basic_string< char >", "std::string")
            return ("ptr", ALIAS.get(n, n))
        if f & idbfmt.TF["const"]:
            return dbcat(T, t["wrapped_type"], string)
    if f & idbfmt.TF["enum"]:
        return ("enum", t["scoped_name"])
    if f & idbfmt.TF["atomic"]:
        if t["atomic_token"] == 6:
            return ("void",)
        return ("prim", t["true_name"])
    if f & idbfmt.TF["typedef"]:
        return dbcat(T, t["wrapped_type"], string)
    return ("other", t["true_name"])


def find_wrapper(db, idx, call, k, backend, string):
    """the database entry for this callable with k trailing defaults omitted: (wrapper, problem)"""
    T, W = idx["types"], idx["wrappers"]
    want = [modelcat(p, string) for p in call["params"][:len(call["params"]) - k]]
    cands = []
    names = call.get("fnames") or [call["fname"]]
    for f in db["functions"]:
        if f["scoped_name"] not in names:
            continue
        for wi in (f["c_wrappers"] if backend == "-c" else f["python_wrappers"]):
            w = W[wi]
            ps = list(w["parameters"])
            if ps and ps[0]["flags"] & idbfmt.PF["is_this"]:
                if call["kind"] in ("static", "func", "ctor", "gget", "gset"):
                    continue
                ps = ps[1:]
            elif call["kind"] in ("method", "get", "set"):
                continue
            if [dbcat(T, p["type"], string) for p in ps] == want:
                cands.append(w)
    if len(cands) == 1:
        return cands[0], None
    if not any(f["scoped_name"] in names for f in db["functions"]):
        return None, "not-exported"
    if len(cands) > 1 and call.get("fnames"):
        return cands[0], None           # an instantiation recorded under two spellings of the same class: either wrapper will do
    return None, ("no-matching-wrapper" if not cands else "ambiguous-wrappers")


# ---- values ------------------------------------------------------------------------------------------------------

UTF8_STRINGS = [s for s in STRINGS if s != b"\xff\xfe\x01"]


def pick_value(t, seed, slots, string, python=False):
    """-> abstract value dict or None when no value can be made"""
    if t.kind == "prim":
        if t.name == "float":
            v = struct.unpack("<f", struct.pack("<f", FLOATS[seed % len(FLOATS)]))[0]
            return {"k": "prim", "t": "float", "v": v}
        if t.name == "double":
            return {"k": "prim", "t": "double", "v": DOUBLES[seed % len(DOUBLES)]}
        lo, hi = RANGE[t.name]
        cands = [lo, hi, 0, 1, hi // 2, lo + 1, hi - 1, min(hi, 42), max(lo, -1) if lo < 0 else 2]
        v = cands[seed % len(cands)] if seed % 3 else lo + (seed * 2654435761) % (hi - lo + 1)
        return {"k": "prim", "t": t.name, "v": v}
    if t.kind == "enum":
        name, val = t.ref["values"][seed % len(t.ref["values"])]
        return {"k": "enum", "q": t.ref["qname"], "v": val}
    if t.kind in ("cstr", "str"):
        if not string and t.kind == "str":
            return None
        if t.kind == "cstr" and seed % 11 == 0 and not python:
            return {"k": "null", "ctype": "const char *"}
        pool = UTF8_STRINGS if python else STRINGS          # -python converts strings from/to str: UTF-8 is its documented domain
        s = pool[seed % len(pool)]
        return {"k": "bytes", "hex": s.hex(), "std": t.kind == "str"}
    if t.kind == "obj":
        live = [s for s in slots if s["alive"] and s["cls"] is t.ref]
        if not live:
            if t.mode in (3, 4) and seed % 2 == 0:
                return {"k": "null", "ctype": "::%s *" % t.ref["qname"]}
            return None
        if t.mode in (3, 4) and seed % 7 == 0:
            return {"k": "null", "ctype": "::%s *" % t.ref["qname"]}
        s = live[seed % len(live)]
        return {"k": "slot", "slot": s["n"], "mode": t.mode}
    return None


def cpp_value(v):
    k = v["k"]
    if k == "prim":
        t = v["t"]
        if t == "bool":
            return "true" if v["v"] else "false"
        if t in ("float", "double"):
            x = float(v["v"])
            lit = x.hex() if x == x and x not in (float("inf"), float("-inf")) else "0.0"
            return "(%s)%s" % (t, lit)
        if RANGE[t][0] < 0:
            if v["v"] == -2 ** 63:
                return "(%s)(-9223372036854775807LL - 1)" % t
            return "(%s)(%dLL)" % (t, v["v"])
        return "(%s)(%dULL)" % (t, v["v"])
    if k == "enum":
        return "(::%s)%d" % (v["q"], v["v"])
    if k == "bytes":
        b = bytes.fromhex(v["hex"])
        esc = "".join("\\%03o" % c for c in b)
        return 'std::string("%s", %d)' % (esc, len(b)) if v.get("std") else '"%s"' % esc
    if k == "null":
        return "(%s)nullptr" % v["ctype"]
    if k == "slot":
        return ("o%d" if v["mode"] in (3, 4) else "*o%d") % v["slot"]
    raise ValueError(v)


def drv_value(v):
    if v["k"] == "prim":
        return {"k": "v", "v": bool(v["v"]) if v["t"] == "bool" else v["v"]}
    if v["k"] == "enum":
        return {"k": "v", "v": v["v"]}
    if v["k"] == "bytes":
        return {"k": "bytes", "hex": v["hex"]}
    if v["k"] == "null":
        return {"k": "null"}
    return {"k": "slot", "slot": v["slot"]}


def drv_type(cat, cls_by_q):
    if cat[0] == "prim":
        return {"k": "prim", "name": cat[1]}
    if cat[0] == "enum":
        return {"k": "enum"}
    if cat[0] == "str":
        return {"k": "str"}
    if cat[0] == "ptr":
        c = cls_by_q.get(cat[1])
        return {"k": "ptr", "cls": c["id"] if c else -1}
    return {"k": "void"}


def boost(raw):
    """make more of the library exported (the wrappers are what is under test, the export rules are C04's): most members
    published, functions inside BEGIN_PUBLISH; a third of the members keep their generated visibility"""
    raw = json.loads(json.dumps(raw))
    n = 0
    for c in raw.get("classes", []):
        for m in c.get("members", []):
            n += 1
            if "vis" in m and m["vis"] in (1, 2, 3) and n % 3:
                m["vis"] = 0
            if m.get("ovvis"):
                m["ovvis"] = [None if (v is not None and (n + i) % 3) else v for i, v in enumerate(m["ovvis"])]
    for f in raw.get("funcs", []):
        n += 1
        if n % 4:
            f["inpub"] = True
    for e in raw.get("enums", []):
        e["inpub"] = True
    return hgen.with_member_defaults(hgen.with_arith_family(raw, pairs=True))


NATIVE_PRELUDE = r"""
#include <cstdio>
#include <string>
#include "%s"
template<class K> static std::string vf_desc(const K *p) { return p == nullptr ? std::string("nil") : vf_o(p) + ":" + std::to_string(p->vf_acc); }
static std::string vf_ret(bool v) { return vf_v(v); }
static std::string vf_ret(char v) { return vf_v(v); }
static std::string vf_ret(signed char v) { return vf_v(v); }
static std::string vf_ret(unsigned char v) { return vf_v(v); }
static std::string vf_ret(short v) { return vf_v(v); }
static std::string vf_ret(unsigned short v) { return vf_v(v); }
static std::string vf_ret(int v) { return vf_v(v); }
static std::string vf_ret(unsigned int v) { return vf_v(v); }
static std::string vf_ret(long v) { return vf_v(v); }
static std::string vf_ret(unsigned long v) { return vf_v(v); }
static std::string vf_ret(long long v) { return vf_v(v); }
static std::string vf_ret(unsigned long long v) { return vf_v(v); }
static std::string vf_ret(float v) { return vf_v(v); }
static std::string vf_ret(double v) { return vf_v(v); }
static std::string vf_ret(const char *v) { return vf_v(v); }
static std::string vf_ret(const std::string &v) { return vf_v(v); }
int main() {
"""


def judge(case, ctx):
    be = case["backend"]
    string = case["string"]
    prom = case["promiscuous"]
    flags = (["-string"] if string else []) + (["-promiscuous"] if prom else [])
    opts = {"impl": True, "avoid": set(ctx.disabled_tags) | {"base.direct_and_indirect"}}
    if case["true_names"]:
        opts["no_overloads"] = True
        flags.append("-true-names")
    else:
        flags.append("-fnames")
    opts["single_file"] = True
    lib = hgen.build(boost(case["raw"]), opts)
    classes = ["be." + be] + ["opt." + f for f in flags]
    cls_by_q = {c["qname"]: c for c in lib.classes}
    for c_, _ in TMPL_CLASSES:
        for a_ in c_["aliases"]:
            cls_by_q[a_] = c_
    with run.Scratch("c01") as d:
        bindgen.write_lib(d, lib, hgen.TEMPLATE_HEADER, hgen.TEMPLATE_IMPL)
        r = igate.interrogate(d, lib.cmd_headers, opts=[be] + flags, extra_search=lib.search)
        if r.signal or r.timed_out:
            return Outcome(ok=False, key="interrogate-died:%s" % r.kind(), classes=classes, detail="interrogate %s: %s" % (r.kind(), r.err[-400:].decode("latin-1")))
        if r.rc != 0:
            return Outcome(ok=True, classes=classes + ["interrogate.rejected"])
        db = igate.load_db(os.path.join(d, "l.in"))
        idx = {k: idbfmt.by_index(db, k) for k in idbfmt.KINDS}
        T, W, F = idx["types"], idx["wrappers"], idx["functions"]
        type_by_q = {t["scoped_name"]: t for t in db["types"]}
        calls = callables(lib, prom)
        for _, tc in TMPL_CLASSES:
            calls += tc
        calls += TMPL_FREE
        for t_ in list(type_by_q.values()):
            if t_["scoped_name"] in ALIAS and not (t_["flags"] & idbfmt.TF["typedef"]) and (t_["destructor"] or ALIAS[t_["scoped_name"]] not in type_by_q):
                type_by_q[ALIAS[t_["scoped_name"]]] = t_
        # --- build the plan
        slots = []
        native = []
        steps = []
        kinds = set()
        pkinds = set()
        skipped = 0
        expect_labels = []

        def dtor_wrapper(c):
            t = type_by_q.get(c["qname"])
            if not t or not t["destructor"]:
                return None
            f = F[t["destructor"]]
            if F[t["destructor"]]["class_"] != t["index"]:
                return None
            ws = f["c_wrappers"] if be == "-c" else f["python_wrappers"]
            return W[ws[0]] if ws else None

        avail = []
        for call in calls:
            for k in range(call["ndef"] + 1):
                w, problem = find_wrapper(db, idx, call, k, be, string)
                if w is None:
                    classes.append("skip." + problem)
                elif string or not any(p.kind == "str" for p in call["params"] + ([call["ret"]] if call.get("ret") else [])):
                    avail.append((call, k, w))

        def ensure_object(cls, s, depth):
            ctors = [x for x in avail if x[0]["kind"] == "ctor" and x[0]["cls"] is cls]
            ctors.sort(key=lambda x: len(x[0]["params"]) - x[1])
            for call, k, w in ctors[:2]:
                if do_call(call, k, w, s, depth):
                    return True
            return False

        def do_call(call, k, w, s, depth):
                params = call["params"][:len(call["params"]) - k]
                this = None
                if call["kind"] in ("method", "get", "set"):
                    live = [x for x in slots if x["alive"] and x["cls"] is call["cls"]]
                    if not live and depth < 2 and ensure_object(call["cls"], s, depth + 1):
                        live = [x for x in slots if x["alive"] and x["cls"] is call["cls"]]
                    if not live:
                        return False
                    this = live[s[3] % len(live)]
                vals = []
                ok = True
                for i, p in enumerate(params):
                    if p.kind == "obj" and depth < 2 and not any(x["alive"] and x["cls"] is p.ref for x in slots):
                        ensure_object(p.ref, s, depth + 1)
                    v = pick_value(p, s[4 + i % 6] + i * 7919, slots, string, python=(be == "-python"))
                    if v is None:
                        ok = False
                        break
                    vals.append(v)
                if not ok or (not string and any(p.kind == "str" for p in params + ([call["ret"]] if call.get("ret") else []))):
                    return False
                rcat = modelcat(call["ret"], string) if call.get("ret") is not None else None
                args_cpp = ", ".join(cpp_value(v) for v in vals)
                n_step = len(steps)
                st_ = {"w": w["name"], "ptypes": [], "args": []}
                if this is not None:
                    st_["ptypes"].append({"k": "ptr", "cls": this["cls"]["id"]})
                    st_["args"].append({"k": "slot", "slot": this["n"]})
                for p_db, v in zip(w["parameters"][1 if this is not None else 0:], vals):
                    st_["ptypes"].append(drv_type(dbcat(T, p_db["type"], string), cls_by_q))
                    st_["args"].append(drv_value(v))
                for p in params:
                    pkinds.add(p.kind if p.kind != "prim" else p.name)
                if call["kind"] == "ctor":
                    n = len(slots)
                    slots.append({"n": n, "cls": call["cls"], "alive": True, "owner": None, "owned": True})
                    native.append('  ::%s *o%d = new ::%s(%s); printf("RET %d %%s\\n", vf_desc(o%d).c_str());' % (call["cls"]["qname"], n, call["cls"]["qname"], args_cpp, n_step, n))
                    st_["rtype"] = drv_type(dbcat(T, w["return_type"], string), cls_by_q)
                    st_["bind"] = n
                    kinds.add("ctor")
                else:
                    if call["kind"] == "method":
                        target = "o%d->%s" % (this["n"], call["name"])
                        if not call["const"] and False:
                            pass
                        expr = "%s(%s)" % (target, args_cpp)
                    elif call["kind"] == "static":
                        expr = "::%s::%s(%s)" % (call["cls"]["qname"], call["name"], args_cpp)
                    elif call["kind"] == "func":
                        expr = "::%s(%s)" % (call["name"], args_cpp)
                    elif call["kind"] == "get":
                        expr = "o%d->%s" % (this["n"], call["name"])
                    elif call["kind"] == "gget":
                        expr = "::%s" % call["name"]
                    elif call["kind"] == "gset":
                        expr = "(::%s = %s)" % (call["name"], args_cpp)
                    else:
                        expr = "(o%d->%s = %s)" % (this["n"], call["name"], args_cpp)
                    ret = call["ret"]
                    st_["rtype"] = drv_type(dbcat(T, w["return_type"], string) if w["flags"] & idbfmt.WF["has_return"] else ("void",), cls_by_q)
                    if ret.kind == "void" or call["kind"] in ("set", "gset"):
                        native.append('  %s; printf("RET %d void\\n");' % (expr, n_step))
                    elif ret.kind == "obj":
                        if ret.mode == 0:
                            native.append('  { ::%s r = %s; printf("RET %d %%s\\n", vf_desc(&r).c_str()); }' % (ret.ref["qname"], expr, n_step))
                            dw = dtor_wrapper(ret.ref)
                            if w["flags"] & idbfmt.WF["caller_manages"] and dw is not None and ret.ref.get("dtor_vis", "public") in ("public", "published"):
                                st_["free_with"] = dw["name"]
                        elif ret.mode in (1, 2):
                            native.append('  { const ::%s &r = %s; printf("RET %d %%s\\n", vf_desc(&r).c_str()); }' % (ret.ref["qname"], expr, n_step))
                        else:
                            native.append('  { const ::%s *r = %s; printf("RET %d %%s\\n", vf_desc(r).c_str()); }' % (ret.ref["qname"], expr, n_step))
                    elif ret.kind == "enum":
                        native.append('  { auto r = %s; printf("RET %d %%s\\n", vf_e(r).c_str()); }' % (expr, n_step))
                    else:
                        native.append('  { auto r = %s; printf("RET %d %%s\\n", vf_ret(r).c_str()); }' % (expr, n_step))
                    kinds.add(call["kind"] + (".default" if k else "") + (".overloaded" if len(call["ent"].get("ovs", [])) > 1 else "") +
                          (".template" if call.get("cls") and call["cls"].get("tmpl") else ""))
                steps.append(st_)
                return True

        for s in case["steps"]:
            a = s[0] % 10
            if a == 0 and slots:
                # upcast of a live object through the database's derivation record
                live = [x for x in slots if x["alive"]]
                if not live:
                    continue
                src = live[s[1] % len(live)]
                t = type_by_q.get(src["cls"]["qname"])
                ders = [dv for dv in (t["derivations"] if t else []) if dv["upcast"]]
                if not ders:
                    continue
                dv = ders[s[2] % len(ders)]
                base = cls_by_q.get(T[dv["base"]]["scoped_name"])
                ws = F[dv["upcast"]]["c_wrappers"] if be == "-c" else F[dv["upcast"]]["python_wrappers"]
                if base is None or not ws:
                    continue
                n = len(slots)
                slots.append({"n": n, "cls": base, "alive": True, "owner": src["n"], "owned": False})
                native.append('  ::%s *o%d = (::%s *)o%d; printf("RET %d %%s\\n", vf_desc(o%d).c_str());' % (base["qname"], n, base["qname"], src["n"], len(steps), n))
                steps.append({"w": W[ws[0]]["name"], "ptypes": [{"k": "ptr", "cls": src["cls"]["id"]}], "rtype": {"k": "ptr", "cls": base["id"]},
                              "args": [{"k": "slot", "slot": src["n"]}], "bind": n})
                kinds.add("upcast")
                continue
            if a == 1 and slots:
                # destroy an object that the plan constructed
                live = [x for x in slots if x["alive"] and x["owned"] and x["cls"].get("dtor_vis", "public") in ("public", "published")]
                if not live:
                    continue
                src = live[s[1] % len(live)]
                w = dtor_wrapper(src["cls"])
                if w is None:
                    continue
                native.append('  delete o%d; printf("RET %d void\\n");' % (src["n"], len(steps)))
                steps.append({"w": w["name"], "ptypes": [{"k": "ptr", "cls": src["cls"]["id"]}], "rtype": {"k": "void"}, "args": [{"k": "slot", "slot": src["n"]}], "kill": src["n"]})
                for x in slots:
                    if x["n"] == src["n"] or x.get("owner") == src["n"] or (x.get("owner") is not None and slots[x["owner"]].get("owner") == src["n"]):
                        x["alive"] = False
                kinds.add("destroy")
                continue
            if not avail:
                continue
            pool = avail
            if a in (2, 3) or not any(x["alive"] for x in slots):
                pool = [x for x in avail if x[0]["kind"] == "ctor"] or avail
            elif a >= 6:
                pool = [x for x in avail if x[0]["kind"] in ("method", "get", "set")] or avail
            call, k, w = pool[s[1] % len(pool)]
            if do_call(call, k, w, s, 0) and (s[9] % 3 == 0 or (call.get("ret") is not None and call["ret"].kind in ("str", "cstr") and s[9] % 3 != 1)):
                # the same wrapper again with other arguments (and, for methods, possibly another object): each call must
                # return the value produced by that call
                do_call(call, k, w, [(x * 7919 + 13) % 1000003 for x in s], 0)
                kinds.add("repeat")
        if not steps:
            return Outcome(ok=True, classes=classes + ["empty-plan"])
        # --- build both worlds
        src = NATIVE_PRELUDE % lib.main + "\n".join(native) + '\n  printf("DONE\\n");\n  fflush(stdout);\n  return 0;\n}\n'
        run.write(os.path.join(d, "native.cxx"), src)
        c = bindgen.cc(d, "impl_l.cxx", "impl.o", lib=lib, python=False)
        if c.rc != 0:
            raise core.Broken("generated implementation does not compile: " + c.err.decode("latin-1")[-600:])
        c = igate.gxx(d, ["-O0", "-I", igate.SYS] + lib.gxx_inc + ["native.cxx", "impl.o", "-o", "native"], timeout=300)
        if c.rc != 0:
            raise core.Broken("generated native driver does not compile: " + c03._errlines(c.err) + "\n" + "\n".join(native[:40]))
        c = bindgen.cc(d, "l_igate.cxx", "l_igate.o", lib=lib, python=True)
        if c.rc != 0:
            return Outcome(ok=True, classes=classes + ["code-does-not-compile", "cdnc:" + (bindgen.first_errors(c.err.decode("latin-1")) or ["?"])[0]])        # C03's business
        objs = ["l_igate.o", "impl.o"]
        if be == "-python":
            rm = igate.interrogate_module(d, ["l.in"], opts=["-python"], module="m", library="m")
            if rm.rc != 0:
                return Outcome(ok=True, classes=classes + ["module-failed"])
            c = bindgen.cc(d, "m_module.cxx", "m_module.o", lib=lib, python=True)
            if c.rc != 0:
                return Outcome(ok=True, classes=classes + ["code-does-not-compile"])
            objs.append("m_module.o")
        lk = bindgen.link(d, objs, "m.so", extra=["-L" + os.path.join(build.ensure("std"), "lib"), "-linterrogatedb", "-Wl,-rpath," + os.path.join(build.ensure("std"), "lib")])
        if lk.rc != 0:
            return Outcome(ok=True, classes=classes + ["link-failed"])
        ntrace, wtrace = os.path.join(d, "native.trace"), os.path.join(d, "wrapped.trace")
        rn = run.run([os.path.join(d, "native")], cwd=d, env=run.base_env({"VF_TRACE": ntrace}), timeout=60)
        if rn.rc != 0 or b"DONE" not in rn.out:
            # the plan itself misbehaves natively (e.g. uses an object in a way the library does not support): not a wrapper matter
            return Outcome(discard=True, classes=classes + ["native-failed"], detail="native driver: %s %s" % (rn.kind(), rn.err[-200:].decode("latin-1")))
        plan = {"so": os.path.join(d, "m.so"), "steps": steps, "module": "m"}
        run.write(os.path.join(d, "plan.json"), json.dumps(plan))
        drv = os.path.join(build.VERIF, "vf", "drv_c.py" if be == "-c" else "drv_py.py")
        rw = run.run([bindgen.PY, drv, "plan.json"], cwd=d, env=run.base_env({"VF_TRACE": wtrace, "PYTHONPATH": d}), timeout=120, mem_mb=0)
        nret = [l for l in rn.out.decode("latin-1").splitlines() if l.startswith("RET ")]
        wret = [l for l in rw.out.decode("latin-1").splitlines() if l.startswith("RET ")]
        nall = [l for l in open(ntrace, encoding="latin-1").read().splitlines() if l.startswith("CALL ")] if os.path.exists(ntrace) else []
        wlines = open(wtrace, encoding="latin-1").read().splitlines() if os.path.exists(wtrace) else []
        wall = [l for l in wlines if l.startswith("CALL ")]
        # destructor calls of temporaries (by-value results, copies) happen at different moments natively and in a wrapper:
        # they are left out of the ordered comparison; objects the plan destroys explicitly are compared below
        ncalls = [l for l in nall if not l.endswith("-> dtor")]
        wcalls = [l for l in wall if not l.endswith("-> dtor")]
        plan_txt = "\n".join(native)
        if rw.signal or rw.timed_out or b"DONE" not in rw.out:
            return Outcome(ok=False, key="wrapped-run-died:%s:%s" % (be, rw.kind()), classes=classes,
                           detail="the wrapped run dies (%s) after %d of %d steps: %s\nplan (native form):\n%s" % (rw.kind(), len(wret), len(steps), rw.err[-300:].decode("latin-1"), plan_txt))
        for i, (a, b) in enumerate(zip(nret, wret)):
            if a != b:
                return Outcome(ok=False, key="return-value-differs:%s:%s" % (be, a.split(" ")[2].split(":")[0]), classes=classes,
                               detail="step %d returns %r natively but %r through the %s wrapper %s (options %s)\nplan (native form):\n%s" % (i, a, b, be, steps[i]["w"], " ".join(flags), plan_txt))
        for i, (a, b) in enumerate(zip(ncalls, wcalls)):
            if a != b:
                la, lb = a.split(" ")[1], b.split(" ")[1]
                key = "wrong-function-runs" if la != lb else "call-differs"
                return Outcome(ok=False, key="%s:%s" % (key, be), classes=classes,
                               detail="library call %d: native run logs\n  %s\nwrapped run logs\n  %s\n(options %s %s)\nplan (native form):\n%s" % (i, a, b, be, " ".join(flags), plan_txt))
        if len(ncalls) != len(wcalls):
            return Outcome(ok=False, key="call-count-differs:%s" % be, classes=classes, detail="native run makes %d library calls, wrapped run %d\nplan:\n%s" % (len(ncalls), len(wcalls), plan_txt))
        for i, st_ in enumerate(steps):
            if st_.get("kill") is None:
                continue
            birth = [j for j, x in enumerate(steps) if x.get("bind") == st_["kill"]]
            m = re.search(r"o:(\d+)", nret[birth[0]]) if birth and birth[0] < len(nret) else None
            if not m:
                continue
            pat = "this=o:%s " % m.group(1)
            nd = len([l for l in nall if l.endswith("-> dtor") and pat in l])
            wd = len([l for l in wall if l.endswith("-> dtor") and pat in l])
            if nd != wd:
                return Outcome(ok=False, key="destructor-calls-differ:%s" % be, classes=classes,
                               detail="the object destroyed in step %d has %d destructor call(s) natively and %d through the %s wrapper %s\nplan:\n%s" % (i, nd, wd, be, st_["w"], plan_txt))
        bad = [l for l in wlines if "DOUBLE-DEATH" in l or "!DEAD" in l]
        if bad and not any("DOUBLE-DEATH" in l or "!DEAD" in l for l in open(ntrace, encoding="latin-1").read().splitlines()):
            return Outcome(ok=False, key="use-after-destroy:%s" % be, classes=classes, detail="wrapped run touches a destroyed object: %s\nplan:\n%s" % (bad[0], plan_txt))
    nt = []
    if len(steps) >= 5 and any(k.startswith("method") for k in kinds) and any(".default" in k or ".overloaded" in k for k in kinds):
        nt.append((be, tuple(flags), tuple(sorted(kinds)), tuple(sorted(pkinds))[:8]))
    for k in kinds:
        classes.append("step." + k)
    return Outcome(ok=True, nontrivial=nt, classes=classes + ["compared"],
                   sample={"backend": be, "options": flags, "steps": len(steps), "library_calls": len(ncalls), "kinds": sorted(kinds), "param_kinds": sorted(pkinds),
                           "first_calls": ncalls[:3]})


def worker(ctx, widx, stage, stats):
    f = core.hypothesis_search(None, ctx, _strategy(ctx), judge, ctx.pick(40, 600), ctx.seed * 1000 + widx, stats, time_budget=ctx.pick(150, 1500))
    return [f] if f else []
