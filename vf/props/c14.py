"""C14 -- output is a pure function of the inputs (reproducible builds).
Metamorphic: identical command line, identical directory, differing process perturbations
(heap-address order, ASLR, environment size, locale, TZ, malloc tunables) => byte-identical outputs."""
import hashlib
import os
import re
import time

from hypothesis import strategies as st

from .. import aux, build, core, hgen, igate, run
from ..core import Outcome

ID = "C14"
LEVEL = "exploration"
TECHNIQUE = "metamorphic testing over Hypothesis-generated libraries x generated process perturbations (heap-order shuffling allocator via LD_PRELOAD, ASLR, environment, locale, TZ)"
RULE = ("Hypothesis generates libraries biased towards order dependence (same-arity overload sets over unrelated classes, many classes and "
        "manifests) x back-end {-c,-python,-python-native} x a list of perturbations (allocator-shim seed, ASLR on/off, 0-48KB of "
        "environment padding, LC_ALL in {C, C.utf8, xx_COMMA}, TZ, glibc malloc tunables); each perturbed run of interrogate and "
        "interrogate_module is compared byte for byte with the unperturbed run; a second pair without SOURCE_DATE_EPOCH, >=1.1s apart, "
        "must differ only in the file identifier. Non-trivial: a library with an overload set of size>=3 whose members are "
        "incomparable (unrelated class pointers) run under >=2 allocator seeds; distinct by (back-end, overload-set sizes, perturbation kinds).")
ASSUMPTIONS = ["the allocator shim changes only addresses (checked: it must not change the exit status)", "the wall clock cannot be set in this sandbox: the no-SOURCE_DATE_EPOCH pair relies on real elapsed time",
               "all runs of a case use the same directory and command line"]
NONTRIVIAL_FLOOR = 8


def stages(ctx):
    return [("libs", 16)]


def _biased_raw():
    """libraries with several unrelated classes and functions overloaded on pointers to them"""
    def mk(n, extra, ns, backend_bias):
        classes = [{"kw": i % 2, "bases": [], "members": [{"m": "method", "vis": 0, "static": False, "const": bool(i % 2), "virt": 0, "doc": 0,
                                                            "ovs": [{"params": [{"k": "obj", "c": j, "mode": 3}], "ret": {"k": "void"}, "ndef": 0, "dv": 0}
                                                                    for j in range(n)]},
                                                           # an overloaded call operator and several constructors: slot wrappers over sets of remaps
                                                           {"m": "op", "vis": 0, "op": 7, "t": {"k": "cstr"}},
                                                           {"m": "ctor", "vis": 0, "params": [{"k": "prim", "p": 6}], "explicit": False, "form": 0, "dv": 0},
                                                           {"m": "ctor", "vis": 0, "params": [{"k": "cstr"}], "explicit": False, "form": 0, "dv": 0},
                                                           {"m": "ctor", "vis": 0, "params": [{"k": "prim", "p": 13}, {"k": "prim", "p": 6}], "explicit": False, "form": 0, "dv": 0}],
                    "file": 0, "inpub": False, "doc": 0} for i in range(n)]
        funcs = [{"ovs": [{"params": [{"k": "obj", "c": j, "mode": 3 + (j % 2)}], "ret": {"k": "prim", "p": 6}, "ndef": 0, "dv": 0} for j in range(n)],
                  "file": 0, "inpub": True, "doc": 0}]
        raw = dict(extra)
        raw["classes"] = classes + raw["classes"][:2]
        raw["funcs"] = funcs + raw["funcs"][:3]
        raw["ns"] = False
        return raw
    return st.builds(mk, st.integers(3, 6), hgen.raw_libraries(max_classes=3, max_funcs=3), st.booleans(), st.integers(0, 2))


def _perturbation():
    return st.builds(lambda seed, aslr, pad, loc, tz, tun: {"seed": seed, "aslr": aslr, "pad": pad, "loc": loc, "tz": tz, "tun": tun},
                     st.integers(1, 10 ** 6), st.booleans(), st.sampled_from([0, 0, 1000, 48000]),
                     st.sampled_from(["C", "C.utf8", "xx_COMMA"]), st.sampled_from(["UTC", "Asia/Tokyo", ""]),
                     st.sampled_from(["", "glibc.malloc.tcache_count=0", "glibc.malloc.mmap_threshold=4096"]))


class _TmplLib:
    """hand-shaped library: same-named nested classes / enums in several outer classes of a header that is only
    reached through -I, used by signatures of the command-line header (external imports, name ties)"""

    def __init__(self, t):
        n = t["n"]
        inner = ["Cursor", "Iter", "Mode"][t["inner"] % 3]
        ext = ["#ifndef EXT_H", "#define EXT_H", "#include <verif_prelude.h>"]
        for i in range(n):
            ext.append("class Outer%d {\nPUBLISHED:\n  class %s {\n  PUBLISHED:\n    int get_%d() const;\n  };\n  enum Kind { k%d_a, k%d_b };\n  int m%d();\n};" % (i, inner, i, i, i, i))
        ext.append("#endif")
        main = ["#ifndef L_H", "#define L_H", "#include <verif_prelude.h>", '#include "ext.h"', "class User {", "PUBLISHED:", "  User();"]
        order = list(range(n))
        if t["rev"]:
            order.reverse()
        for i in order:
            main.append("  void use_%d(Outer%d::%s *c, Outer%d::Kind k = Outer%d::k%d_a);" % (i, i, inner, i, i, i))
            main.append("  Outer%d::%s *make_%d(const Outer%d &o);" % (i, inner, i, i))
            if t["ovl"]:
                main.append("  void use_any(Outer%d::%s *c);" % (i, inner))
        main += ["};", "#endif"]
        self.files = {"l.h": "\n".join(main) + "\n", "incdir/ext.h": "\n".join(ext) + "\n"}
        self.main = "l.h"
        self.cmd_headers = ["l.h"]
        self.search = ["-Iincdir"]
        self.entities = [{"kind": "method", "ovs": [{"params": [type("P", (), {"kind": "obj"})()]} for _ in range(n)]}] if t["ovl"] else []


def _tmpl():
    return st.builds(lambda n, inner, rev, ovl: {"tmpl": {"n": n, "inner": inner, "rev": rev, "ovl": ovl}}, st.integers(2, 6), st.integers(0, 2),
                     st.booleans(), st.booleans())


def _strategy(ctx):
    return st.builds(lambda raw, backend, perts, mod, ep: {"raw": raw, "backend": backend, "perts": perts, "module": mod, "epoch": ep},
                     st.one_of(_biased_raw(), _biased_raw(), hgen.raw_libraries(), _tmpl()),
                     st.sampled_from(["-python-native", "-python-native", "-c", "-python"]),
                     st.lists(_perturbation(), min_size=ctx.pick(3, 8), max_size=ctx.pick(3, 8)), st.booleans(), st.sampled_from(EPOCHS))


def _hashes(d, names):
    out = {}
    for n in names:
        p = os.path.join(d, n)
        out[n] = hashlib.sha256(open(p, "rb").read()).hexdigest() if os.path.exists(p) else None
    return out


OUTS = ["l_igate.cxx", "l.in", "l.txt", "m_module.cxx"]


EPOCHS = ["1700000000", "1700000000", "0", "1", "2147483647", "00", "86400"]


def _run_all(d, lib, backend, env_extra, prefix, with_module, epoch="1700000000"):
    for n in OUTS:
        if os.path.exists(os.path.join(d, n)):
            os.unlink(os.path.join(d, n))
    env = run.base_env()
    if epoch:
        env["SOURCE_DATE_EPOCH"] = epoch
    env.update(env_extra)
    argv = prefix + [build.tool("interrogate"), "-oc", "l_igate.cxx", "-od", "l.in", "-oh", "l.txt", "-module", "m", "-library", "l", backend,
                     "-string", "-fnames"] + igate.std_args() + lib.search + lib.cmd_headers
    r = run.run(argv, cwd=d, env=env, timeout=60, mem_mb=0)
    r2 = None
    if with_module and r.rc == 0 and backend == "-python-native":
        argv2 = prefix + [build.tool("interrogate_module"), "-oc", "m_module.cxx", "-module", "m", "-library", "m", "-python-native", "l.in"]
        r2 = run.run(argv2, cwd=d, env=env, timeout=60, mem_mb=0)
    return r, r2, _hashes(d, OUTS)


def judge(case, ctx):
    lib = _TmplLib(case["raw"]["tmpl"]) if "tmpl" in case["raw"] else hgen.build(case["raw"])
    shim = aux.ensure_so("shufflealloc")
    locdir = aux.ensure_locale()
    classes = ["backend." + case["backend"]]
    big_sets = [len(e["ovs"]) for e in lib.entities if e["kind"] in ("method", "function") and len(e["ovs"]) >= 3 and
                all(len(ov["params"]) == 1 and ov["params"][0].kind == "obj" for ov in e["ovs"])]
    with run.Scratch("c14", shm=True) as d:
        for f, txt in lib.files.items():
            run.write(os.path.join(d, f), txt)
        epoch = case.get("epoch", "1700000000")
        classes.append("epoch." + epoch)
        r, r2, ref = _run_all(d, lib, case["backend"], {}, [], case["module"], epoch=epoch)
        if r.rc != 0:
            return Outcome(discard=True)
        keep = {n: open(os.path.join(d, n), "rb").read() for n in OUTS if ref[n]}
        kinds = set()
        for p in case["perts"]:
            env = {"LD_PRELOAD": shim, "SHUFFLEALLOC_SEED": str(p["seed"])}
            if p["pad"]:
                env["VF_PADDING"] = "x" * p["pad"]
                kinds.add("env")
            if p["loc"] != "C":
                env["LC_ALL"] = p["loc"]
                env["LC_NUMERIC"] = p["loc"]
                if p["loc"] == "xx_COMMA":
                    env["LOCPATH"] = locdir
                kinds.add("locale")
            if p["tz"]:
                env["TZ"] = p["tz"]
                kinds.add("tz")
            if p["tun"]:
                env["GLIBC_TUNABLES"] = p["tun"]
                kinds.add("malloc")
            prefix = ["setarch", "x86_64", "-R"] if not p["aslr"] else []
            kinds.add("aslr" if p["aslr"] else "noaslr")
            kinds.add("heap")
            ra, rb, h = _run_all(d, lib, case["backend"], env, prefix, case["module"], epoch=epoch)
            if ra.rc != 0 or (rb is not None and rb.rc != 0):
                if ra.abnormal or (rb is not None and rb.abnormal):
                    return Outcome(ok=False, key="crash:" + (ra.kind() if ra.abnormal else rb.kind()),
                                   detail="the tool died under a perturbed heap layout (%s): %s" % (p, (ra.err if ra.abnormal else rb.err).decode("latin-1")[-300:]))
                raise core.Broken("perturbed run failed (rc=%s): %s" % (ra.rc, ra.err.decode("latin-1")[-300:]))
            for n in OUTS:
                if h[n] != ref[n]:
                    new = open(os.path.join(d, n), "rb").read() if h[n] else b""
                    old = keep.get(n, b"")
                    i = 0
                    while i < min(len(old), len(new)) and old[i] == new[i]:
                        i += 1
                    return Outcome(ok=False, key="nondeterministic:%s:%s" % (case["backend"], n), classes=classes,
                                   detail="%s of the identical command differs under perturbation %s (back-end %s); first difference at byte %d:\n--- reference\n%s\n--- perturbed\n%s\n--- header\n%s" % (
                                       n, p, case["backend"], i, old[max(0, i - 200):i + 200].decode("latin-1"),
                                       new[max(0, i - 200):i + 200].decode("latin-1"), lib.files[lib.main][:1500]))
        classes += ["pert." + k for k in sorted(kinds)]
        # without SOURCE_DATE_EPOCH: only the file identifier may differ, and it is the same number in code and database
        if case["perts"][0]["seed"] % 4 == 0 or epoch in ("0", "00"):
            r, _, h1 = _run_all(d, lib, case["backend"], {}, [], False, epoch=False)
            a = {n: open(os.path.join(d, n), "rb").read() for n in OUTS[:3] if h1[n]}
            time.sleep(1.2)
            # with SOURCE_DATE_EPOCH (whatever its value) the wall clock must not show: the reference run is at least 1.2s old
            r, _, h3 = _run_all(d, lib, case["backend"], {}, [], case["module"], epoch=epoch)
            for n in OUTS:
                if h3[n] != ref[n]:
                    new = open(os.path.join(d, n), "rb").read() if h3[n] else b""
                    return Outcome(ok=False, key="time-dependent-with-epoch:%s" % n, classes=classes,
                                   detail="SOURCE_DATE_EPOCH=%s: %s differs between two runs >=1.2s apart:\n%s\n---\n%s" % (
                                       epoch, n, keep.get(n, b"")[:120].decode("latin-1"), new[:120].decode("latin-1")))
            classes.append("epoch_pair")
            r, _, h2 = _run_all(d, lib, case["backend"], {}, [], False, epoch=False)
            b = {n: open(os.path.join(d, n), "rb").read() for n in OUTS[:3] if h2[n]}
            ida, idb_ = a["l.in"].split(b"\n", 1)[0], b["l.in"].split(b"\n", 1)[0]
            if a["l.in"].split(b"\n", 1)[1] != b["l.in"].split(b"\n", 1)[1]:
                return Outcome(ok=False, key="time-dependent:db", detail="two runs %s apart differ in the database beyond the file identifier" % "1.2s")
            ca = re.sub(rb"\b%s\b" % ida, b"FILEID", a["l_igate.cxx"])
            cb = re.sub(rb"\b%s\b" % idb_, b"FILEID", b["l_igate.cxx"])
            if ca != cb:
                return Outcome(ok=False, key="time-dependent:code", detail="two runs 1.2s apart differ in the code file beyond the file identifier")
            if case["backend"] != "-python-native" and ida not in a["l_igate.cxx"]:
                pass
            classes.append("no_epoch_pair")
    nt = []
    if big_sets and len(case["perts"]) >= 2:
        nt.append("%s|%s|%s" % (case["backend"], sorted(big_sets), sorted(kinds)))
    return Outcome(ok=True, nontrivial=nt, classes=classes,
                   sample={"backend": case["backend"], "overload_sets": big_sets, "perturbations": case["perts"][:2]})


def worker(ctx, widx, stage, stats):
    f = core.hypothesis_search(None, ctx, _strategy(ctx), judge, ctx.pick(30, 400), ctx.seed * 1000 + widx, stats,
                               time_budget=ctx.pick(90, 900))
    return [f] if f else []
