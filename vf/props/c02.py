"""C02 -- python-native bindings dispatch, convert and own objects as C++ would.
Stateful differential: Hypothesis generates a class library (overload sets distinguishable by Python type category) and a history
of Python-level operations (construct, call by C++ name or camelCase alias, operators, properties, sequences, pass and return
objects, drop references, deliberately wrong calls).  The module built from -python-native + interrogate_module output is driven
by a Python client; a generated native C++ driver runs the same history with C++ overload resolution.  The instrumented library's
trace and every returned value must agree; wrong calls must raise the documented exception without reaching the library; every
object the interpreter owns dies exactly once, objects it does not own are never destroyed."""
import json
import os
import re

from hypothesis import strategies as st

from .. import aux, bindgen, build, core, hgen, idbfmt, igate, run
from ..core import Outcome
from . import c01, c03

ID = "C02"
LEVEL = "exploration"
TECHNIQUE = ("stateful differential property-based testing: Hypothesis-generated libraries and operation histories; Python client on the "
             "imported extension module vs generated native C++ driver (C++ overload resolution as the oracle), library trace + returned "
             "values + exception class + object lifetime accounting (BIRTH/COPY/DEATH per C++ object) compared")
RULE = ("Hypothesis generates libraries (overload sets distinct by Python type category, trailing defaults, const/non-const and static "
        "methods, virtual overrides, operators, MAKE_PROPERTY / MAKE_SEQ, data members, scoped/unscoped/nested enums, inheritance, Python "
        "keywords as method names) x {-nomangle} x {-promiscuous} x a history of up to 30 steps: constructor and method calls with "
        "boundary values through the C++ name or the camelCase alias, keyword arguments, derived instances passed for base parameters, "
        "operators as Python operators, property get/set, sequences, results kept and dropped, and negative steps (one argument too "
        "many/few, an object() where no overload accepts it, integers outside the parameter's range). Oracle per step: same CALL lines "
        "and same value as the native run; negative steps raise TypeError/OverflowError and log no CALL; returned wrappers have the class, "
        "constness and ownership the C++ signature implies; at the end every interpreter-owned object has exactly one DEATH, no borrowed "
        "object has one, and no DOUBLE-DEATH/use-after-death marker exists. Non-trivial: a history with >= 6 executed steps including an "
        "overloaded or defaulted call, an object argument or result, and a drop; distinct by (options, step kinds, parameter kinds).")
ASSUMPTIONS = ["OverflowError is expected only for functions with a single overload (with several the dispatcher falls through to 'Arguments must match' TypeError; every class has an implicit copy constructor next to its other constructors)",
               "plain 'char' is a one-character string in this back-end, not an integer type: the libraries use signed/unsigned char instead",
               "a function with exactly one parameter is compiled as METH_O and takes no keyword argument: keyword calls are made on functions with two or more parameters",
               "namespaces and a direct base that is also an indirect base are kept out of the libraries (known findings of C03)",
               "strings are valid UTF-8 (the back-end converts to and from str)",
               "expected ownership: constructed objects and by-value results are owned by the wrapper, pointer/reference results are borrowed"]
NONTRIVIAL_FLOOR = 6

CODE = {"bool": "b", "char": "i8", "signed char": "i8", "unsigned char": "u8", "short": "i16", "unsigned short": "u16", "int": "i32", "unsigned int": "u32",
        "long": "i64", "unsigned long": "u64", "long long": "i64", "unsigned long long": "u64", "float": "f32", "double": "f64"}
OPNAME = {"operator ==": ("__eq__", "eq"), "operator !=": ("__ne__", "ne"), "operator <": ("__lt__", "lt"), "operator +": ("__add__", "add"),
          "operator -": ("__sub__", "sub"), "operator *": ("__mul__", "mul"), "operator +=": ("__iadd__", "iadd"), "operator []": ("__getitem__", "getitem"),
          "operator ()": ("__call__", None), "operator ~": ("__invert__", "invert")}


def stages(ctx):
    return [("histories", 16)]


def _strategy(ctx):
    step = st.lists(st.integers(0, 10 ** 6), min_size=10, max_size=10)
    return st.builds(lambda raw, nm, prom, steps: {"raw": raw, "nomangle": nm, "promiscuous": prom, "steps": steps},
                     hgen.raw_libraries(max_classes=4, max_funcs=4), st.sampled_from([False, False, True]), st.booleans(), st.lists(step, min_size=4, max_size=30))


def camel(name):
    out = []
    cap = False
    for ch in name:
        if ch == "_":
            cap = True
        elif cap:
            out.append(ch.upper())
            cap = False
        else:
            out.append(ch)
    return "".join(out)


KEYWORDS = {"and", "as", "assert", "async", "await", "break", "class", "continue", "def", "del", "elif", "else", "except", "exec", "finally", "for", "from",
            "global", "if", "import", "in", "is", "lambda", "nonlocal", "not", "or", "pass", "print", "raise", "return", "try", "while", "with", "yield"}


def pyname(name, alias, nparams=1):
    if name == "operator -" and nparams == 0:
        return "__neg__"
    if name in OPNAME:
        return OPNAME[name][0]
    n = camel(name) if alias else name
    return "_" + n if n in KEYWORDS else n


def ret_code(t):
    if t is None or t.kind == "void":
        return "void"
    if t.kind == "prim":
        return CODE[t.name]
    if t.kind == "enum":
        return "e"
    if t.kind in ("cstr", "str"):
        return "s"
    return "o:%d" % t.ref["id"]


def py_value(v, t, lib):
    """abstract value (c01.pick_value) -> driver argument"""
    k = v["k"]
    if k == "prim":
        if v["t"] in ("float", "double"):
            return {"k": "float", "hex": float(v["v"]).hex()}
        return {"k": "v", "v": bool(v["v"]) if v["t"] == "bool" else v["v"]}
    if k == "enum":
        e = t.ref
        if e["scoped"]:
            name = [n for n, val in e["values"] if val == v["v"]][0]
            path = ([e["cls"]["name"]] if e.get("cls") else []) + [e["name"], name]
            return {"k": "attr", "path": path}
        return {"k": "v", "v": v["v"]}
    if k == "bytes":
        return {"k": "str", "hex": v["hex"]}
    if k == "slot":
        return {"k": "slot", "slot": v["slot"]}
    if k == "coerce":
        return py_value(v["inner"], v["ctor"]["params"][0], lib)
    raise ValueError(v)


def cpp_arg(v):
    return c01.cpp_value(v["inner"]) if v["k"] == "coerce" else c01.cpp_value(v)


def enrich(raw):
    """every class gets (a) a const method handing out a const pointer/reference to itself and a non-const one handing out a
    mutable one (the history then owns borrowed and const wrappers), and (b) an overload pair that differs in constness of an
    object parameter and in the category of another parameter -- the shapes the constness rules are about"""
    raw = json.loads(json.dumps(hgen.with_member_defaults(raw)))
    for i, c in enumerate(raw.get("classes", [])):
        own = lambda mode: {"k": "obj", "c": i, "mode": mode}       # noqa: E731
        c["members"] = c["members"] + [
            {"m": "method", "vis": 0, "static": False, "const": True, "virt": 0, "doc": 0,
             "ovs": [{"params": [], "ret": own(4 if i % 2 else 2), "ndef": 0, "dv": 0}]},
            {"m": "method", "vis": 0, "static": False, "const": False, "virt": 0, "doc": 0,
             "ovs": [{"params": [], "ret": own(3 if i % 2 else 1), "ndef": 0, "dv": 0}]},
            {"m": "method", "vis": 0, "static": bool(i % 2), "const": False, "virt": 0, "doc": 0,
             "ovs": [{"params": [own(1 if i % 3 else 3), {"k": "prim", "p": 6}], "ret": {"k": "prim", "p": 6}, "ndef": 0, "dv": 0},
                     {"params": [own(2 if i % 3 else 4), {"k": "str", "mode": 0}], "ret": {"k": "prim", "p": 6}, "ndef": 0, "dv": 0}]},
        ]
        if i % 3 == 2:
            c["members"] = c["members"] + [{"m": "ctor", "vis": 0, "params": [{"k": "prim", "p": 6} if i % 2 == 0 else {"k": "str", "mode": 2}], "explicit": False, "form": 0, "dv": 0}]
    n = len(raw.get("classes", []))
    # a multiple-inheritance shape: the deep chain listed first, a shallow mix-in last, overloads on an ancestor and on the most
    # derived class -- and an overload whose arity lies strictly inside the default range of another
    mk = lambda bases: {"kw": 0, "bases": bases, "members": [{"m": "method", "vis": 0, "static": False, "const": True, "virt": 0, "doc": 0,      # noqa: E731
                                                               "ovs": [{"params": [], "ret": {"k": "prim", "p": 6}, "ndef": 0, "dv": 0}]}],
                        "file": 0, "inpub": True, "doc": 0}
    raw["classes"] = list(raw["classes"]) + [mk([]), mk([{"c": n, "acc": 0, "virt": False}]), mk([]),
                                             mk([{"c": n + 1, "acc": 0, "virt": False}, {"c": n + 2, "acc": 0, "virt": False}])]
    ptr = lambda c: {"k": "obj", "c": c, "mode": 3}        # noqa: E731
    cref = lambda c: {"k": "obj", "c": c, "mode": 2}       # noqa: E731
    i32, s_ = {"k": "prim", "p": 6}, {"k": "str", "mode": 2}
    probes = [
        {"ovs": [{"params": [ptr(n + 1)], "ret": i32, "ndef": 0, "dv": 0}, {"params": [ptr(n + 3)], "ret": i32, "ndef": 0, "dv": 0}, {"params": [ptr(n + 2)], "ret": i32, "ndef": 0, "dv": 0}],
         "file": 0, "inpub": True, "doc": 0},
        {"ovs": [{"params": [ptr(n + 1), i32], "ret": i32, "ndef": 1, "dv": 5}, {"params": [ptr(n + 3), i32], "ret": i32, "ndef": 1, "dv": 5}], "file": 0, "inpub": True, "doc": 0},
        {"ovs": [{"params": [i32, i32, i32], "ret": i32, "ndef": 2, "dv": 3}, {"params": [s_, s_], "ret": i32, "ndef": 0, "dv": 0}], "file": 0, "inpub": True, "doc": 0},
        # overloads collapsed into one argument-count set by a default: the more specific type must still be tried first
        {"ovs": [{"params": [cref(n), i32], "ret": i32, "ndef": 1, "dv": 5}, {"params": [cref(n + 1)], "ret": i32, "ndef": 0, "dv": 0}], "file": 0, "inpub": True, "doc": 0},
        {"ovs": [{"params": [{"k": "prim", "p": 13}, i32], "ret": i32, "ndef": 1, "dv": 5}, {"params": [i32], "ret": i32, "ndef": 0, "dv": 0}], "file": 0, "inpub": True, "doc": 0},
    ]
    raw["n_probe_funcs"] = len(probes)
    raw["funcs"] = list(raw.get("funcs", [])) + probes + [
        {"ovs": [{"params": [{"k": "obj", "c": j, "mode": 2 if j % 2 == 0 else 0}, {"k": "prim", "p": 12}], "ret": {"k": "prim", "p": 6}, "ndef": 0, "dv": 0}],
         "file": 0, "inpub": True, "doc": 0} for j in range(n)]
    return raw


def judge_literal(case, ctx):
    """replay form of minimised findings: a hand-written header and a Python script run against the built module"""
    lib = c03._Literal(case["literal"])
    with run.Scratch("c02l") as d:
        bindgen.write_lib(d, lib)
        r = igate.interrogate(d, lib.cmd_headers, opts=["-python-native", "-string"], extra_search=lib.search)
        rm = igate.interrogate_module(d, ["l.in"], opts=["-python-native"], module="m", library="m")
        if r.rc != 0 or rm.rc != 0:
            return Outcome(ok=False, key="literal-build-failed", detail="interrogate fails on the replay header: %s" % r.err[-300:].decode("latin-1"))
        objs = []
        for src in ("l_igate.cxx", "m_module.cxx", "impl_l.cxx"):
            c = bindgen.cc(d, src, src + ".o", lib=lib, python=True)
            if c.rc != 0:
                return Outcome(ok=False, key="literal-build-failed", detail="g++ fails on %s: %s" % (src, c03._errlines(c.err)))
            objs.append(src + ".o")
        if bindgen.link(d, objs, "m.so").rc != 0:
            return Outcome(ok=False, key="literal-build-failed", detail="link fails")
        pr = bindgen.py_run(d, case["py"])
        out = pr.out.decode("latin-1")
        if pr.signal or "DONE" not in out:
            return Outcome(ok=False, key="interpreter-died:%s" % pr.kind(), detail="the script dies (%s): %s %s" % (pr.kind(), out[-200:], pr.err[-300:].decode("latin-1")))
        if case.get("expect") and case["expect"] not in out.split():
            return Outcome(ok=False, key="literal-unexpected-output", detail="expected %r in the output, got %r" % (case["expect"], out))
    return Outcome(ok=True)


def judge(case, ctx):
    if case.get("literal"):
        return judge_literal(case, ctx)
    prom = case["promiscuous"]
    flags = ["-string"] + (["-promiscuous"] if prom else []) + (["-nomangle"] if case["nomangle"] else [])
    opts = {"impl": True, "avoid": set(ctx.disabled_tags) | {"base.direct_and_indirect"}, "single_file": True, "no_namespace": True,
            "py_distinct": True, "keyword_names": True}
    lib = hgen.build(enrich(c01.boost(case["raw"])), opts)
    be = "-python-native"
    classes = ["opt." + f for f in flags]
    cls_by_q = {c["qname"]: c for c in lib.classes}
    with run.Scratch("c02") as d:
        bindgen.write_lib(d, lib)
        r = igate.interrogate(d, lib.cmd_headers, opts=[be] + flags, extra_search=lib.search)
        if r.signal or r.timed_out:
            return Outcome(ok=False, key="interrogate-died:%s" % r.kind(), classes=classes, detail="interrogate %s: %s" % (r.kind(), r.err[-400:].decode("latin-1")))
        if r.rc != 0:
            return Outcome(ok=True, classes=classes + ["interrogate.rejected"])
        db = igate.load_db(os.path.join(d, "l.in"))
        idx = {k: idbfmt.by_index(db, k) for k in idbfmt.KINDS}
        T = idx["types"]
        exported_types = {t["scoped_name"] for t in db["types"] if t["flags"] & idbfmt.TF["global_"] or t["flags"] & idbfmt.TF["nested"]}
        calls = c01.callables(lib, prom)
        avail = []
        for call in calls:
            if call["kind"] in ("get", "set", "gget", "gset"):
                continue            # data members are reached as attributes (field steps); globals are not part of the histories
            w, problem = c01.find_wrapper(db, idx, call, 0, be, True)
            if w is None:
                classes.append("skip." + problem)
                continue
            if call["cls"] is not None and call["cls"]["qname"] not in exported_types:
                continue
            nopt = 0
            for p in reversed(w["parameters"]):
                if p["flags"] & idbfmt.PF["is_optional"]:
                    nopt += 1
                else:
                    break
            for k in range(min(call["ndef"], nopt) + 1):
                avail.append((call, k, w))
        fields = []
        for c in lib.classes:
            for m in c["members"]:
                if m["kind"] == "field" and not m["static"] and c01.accessible(m["vis"], prom) and m["t"].kind in ("prim", "enum") and \
                        any(e["scoped_name"] == c["qname"] + "::" + m["name"] for e in db["elements"]):
                    fields.append((c, m))
        props = []
        for c in lib.classes:
            for m in c["members"]:
                if m["kind"] == "property" and any(e["scoped_name"] == c["qname"] + "::" + m["name"] for e in db["elements"]):
                    props.append((c, m))
        seqs = []
        for c in lib.classes:
            for m in c["members"]:
                if m["kind"] == "seq" and any(e["scoped_name"] == c["qname"] + "::" + m["name"] for e in db["make_seqs"]):
                    seqs.append((c, m))
        npf = case["raw"].get("n_probe_funcs", 3) + len(lib.classes) - 4
        probe_ids = {f["id"] for f in lib.funcs[-npf:]} if npf > 0 else set()
        for c_ in lib.classes:
            ms = [m_ for m_ in c_["members"] if m_["kind"] == "method" and not m_.get("op") and not m_.get("role")]
            probe_ids.update(m_["id"] for m_ in ms[-3:])
        slots = []
        native = []
        steps = []
        expect = []           # per step: dict(kind=ok|error, exc=..., obj=dict(type,const,owns) or None)
        kinds = set()
        pkinds = set()

        def live(cls=None, exact=True):
            return [x for x in slots if x["alive"] and (cls is None or x["cls"] is cls or (not exact and cls in hgen._ancestors(x["cls"]) and _public_path(x["cls"], cls)))]

        def ensure_object(cls, s, depth):
            ctors = [x for x in avail if x[0]["kind"] == "ctor" and x[0]["cls"] is cls]
            ctors.sort(key=lambda x: len(x[0]["params"]) - x[1])
            for call, k, w in ctors[:2]:
                if do_call(call, k, w, s, depth, False):
                    return True
            return False

        def args_for(call, k, s, depth, allow_coerce=False):
            params = call["params"][:len(call["params"]) - k]
            vals = []
            for i, p in enumerate(params):
                if p.kind == "obj" and depth < 2 and not live(p.ref):
                    ensure_object(p.ref, s, depth + 1)
                seed = s[4 + i % 6] + i * 7919
                v = None
                usable = [x for x in slots if not (x.get("const") and p.kind == "obj" and p.mode in (1, 3))]     # a const object only where C++ takes one
                if p.kind == "obj" and seed % 3 == 0:
                    # an instance of a publicly derived class where the base class is expected
                    der = [x for x in live(p.ref, exact=False) if x["cls"] is not p.ref and x in usable]
                    if der:
                        v = {"k": "slot", "slot": der[seed % len(der)]["n"], "mode": p.mode, "derived": True}
                if v is None and allow_coerce and p.kind == "obj" and p.mode in (0, 2) and seed % 2 == 1:
                    # a value the class has a converting constructor for, where the class itself is expected (C++: implicit conversion)
                    conv = [m for m in p.ref["members"] if m["kind"] == "ctor" and len(m["params"]) == 1 and not m.get("explicit") and m["form"] == "user"
                            and c01.accessible(m["vis"], prom) and m["params"][0].kind in ("prim", "str", "cstr") and not p.ref.get("abstract")
                            and not (m["params"][0].kind == "prim" and m["params"][0].name == "bool")]
                    if conv:
                        m = conv[seed % len(conv)]
                        inner = c01.pick_value(m["params"][0], seed // 4, slots, True, python=True)
                        if inner is not None and inner["k"] != "null":
                            v = {"k": "coerce", "ctor": m, "inner": inner}
                if v is None:
                    v = c01.pick_value(p, seed, usable, True, python=True)
                if v is None or v["k"] == "null":
                    return None, None
                vals.append(v)
            return params, vals

        def native_call_expr(call, this, args_cpp):
            if call["kind"] == "method":
                return "o%d->%s(%s)" % (this["n"], call["name"], args_cpp)
            if call["kind"] == "static":
                return "::%s::%s(%s)" % (call["cls"]["qname"], call["name"], args_cpp)
            return "::%s(%s)" % (call["name"], args_cpp)

        def emit_native_ret(expr, ret, n_step):
            if ret is None or ret.kind == "void":
                native.append('  vf_emit("STEP %d"); %s; printf("RET %d void\\n");' % (n_step, expr, n_step))
            elif ret.kind == "obj":
                if ret.mode == 0:
                    native.append('  vf_emit("STEP %d"); { ::%s r = %s; printf("RET %d %%s\\n", vf_desc(&r).c_str()); }' % (n_step, ret.ref["qname"], expr, n_step))
                elif ret.mode in (1, 2):
                    native.append('  vf_emit("STEP %d"); { const ::%s &r = %s; printf("RET %d %%s\\n", vf_desc(&r).c_str()); }' % (n_step, ret.ref["qname"], expr, n_step))
                else:
                    native.append('  vf_emit("STEP %d"); { const ::%s *r = %s; printf("RET %d %%s\\n", vf_desc(r).c_str()); }' % (n_step, ret.ref["qname"], expr, n_step))
            elif ret.kind == "enum":
                native.append('  vf_emit("STEP %d"); { auto r = %s; printf("RET %d %%s\\n", vf_e(r).c_str()); }' % (n_step, expr, n_step))
            else:
                native.append('  vf_emit("STEP %d"); { auto r = %s; printf("RET %d %%s\\n", vf_ret(r).c_str()); }' % (n_step, expr, n_step))

        def do_call(call, k, w, s, depth, negative):
            this = None
            if call["kind"] == "method":
                cands = live(call["cls"])
                if not cands and depth < 2 and ensure_object(call["cls"], s, depth + 1):
                    cands = live(call["cls"])
                if not call["const"]:
                    cands = [x for x in cands if not x.get("const")]
                if not cands:
                    return False
                this = cands[s[3] % len(cands)]
            # coercion only where the call cannot change the state of a history object and C++ has a single candidate
            single = len([x for x in avail if x[0].get("name", x[0]["fname"]) == call.get("name", call["fname"]) and x[0]["kind"] == call["kind"] and x[1] == 0]) == 1
            allow = (not negative) and single and (call["kind"] in ("func", "static") or (call["kind"] == "method" and call.get("const"))) and call.get("name") not in OPNAME
            params, vals = args_for(call, k, s, depth, allow_coerce=allow)
            if params is None:
                return False
            coerced = any(v["k"] == "coerce" for v in vals)
            alias = (not case["nomangle"]) and s[9] % 2 == 1
            n_step = len(steps)
            pargs = [py_value(v, p, lib) for v, p in zip(vals, params)]
            st_ = {"args": pargs}
            use_kw = s[8] % 4 == 0 and len(call["params"]) >= 2 and len(params) >= 1 and call["kind"] != "ctor" and call["name"] not in OPNAME and not negative
            if use_kw:
                # the last argument by keyword (parameter names are a0, a1, ...)
                st_["kwargs"] = {call["ent"]["ovs"][call["ov"]]["pnames"][len(params) - 1]: pargs[-1]}
                st_["args"] = pargs[:-1]
            if call["kind"] == "ctor":
                st_.update(op="new", path=[call["cls"]["name"]], bind=len(slots), ret="o:%d" % call["cls"]["id"])
            elif call["kind"] == "method":
                st_.update(op="call", on=this["n"], name=pyname(call["name"], alias, len(call["params"])), ret=ret_code(call["ret"]))
                opn = OPNAME.get(call["name"])
                if opn and opn[1] and s[8] % 2 and len(params) == (0 if call["name"] == "operator ~" else 1) and call["name"] != "operator +=" and len(call["params"]) == len(params):
                    st_.update(op="binop", name=opn[1])
                if call["name"] == "operator -" and not call["params"] and s[8] % 2:
                    st_.update(op="binop", name="neg")
                if st_["op"] == "binop" and any(v.get("derived") for v in vals):
                    st_["op"] = "call"        # Python itself tries the reflected method of a subclass operand first
                    st_.pop("name")
                    st_["name"] = pyname(call["name"], alias, len(call["params"]))
            elif call["kind"] == "static":
                st_.update(op="pcall", path=[call["cls"]["name"], pyname(call["name"], alias)], ret=ret_code(call["ret"]))
            else:
                st_.update(op="pcall", path=[pyname(call["name"], alias)], ret=ret_code(call["ret"]))
            if negative:
                mode = negative
                if call.get("name") in OPNAME and mode not in ("arity+", "constthis"):
                    return False               # operator slots answer NotImplemented for foreign operands (Python's protocol), they do not raise
                if mode == "constthis":
                    cthis = [x for x in live(call["cls"]) if x.get("const")] if call["kind"] == "method" and not call["const"] else []
                    if not cthis:
                        return False
                    this = cthis[s[3] % len(cthis)]
                    st_["on"] = this["n"]
                    exc = "TypeError"
                same = [x[0] for x in avail if x[0].get("name", x[0]["fname"]) == call.get("name", call["fname"]) and x[0]["kind"] == call["kind"]]
                # same-named overloads anywhere in the library (Python may expose inherited or differently published flavours)
                named = [ov for c_ in lib.classes for m_ in c_["members"] if m_["kind"] == "method" and m_["name"] == call.get("name") for ov in m_["ovs"]]
                named += [ov for f_ in lib.funcs if f_["name"] == call.get("name") for ov in f_["ovs"]]
                named = [{"params": ov["params"], "ndef": sum(1 for x in ov["defaults"] if x is not None)} for ov in named]
                if mode == "arity+":
                    st_["args"] = st_["args"] + [{"k": "v", "v": 1}] * (1 + call["ndef"] - k + 1) if False else pargs + [{"k": "v", "v": 1}] * (call["ndef"] - k + 1)
                    # only an error if no overload of the set accepts that many arguments
                    # every same-named overload anywhere in the library, whatever its visibility: which of them Python exposes
                    # is the export rules' business (C04), an argument count beyond all of them is wrong in any case
                    allov = [len(ov["params"]) for c_ in lib.classes for m_ in c_["members"] if m_["kind"] == "method" and m_["name"] == call.get("name") for ov in m_["ovs"]]
                    allov += [len(ov["params"]) for f_ in lib.funcs if f_["name"] == call.get("name") for ov in f_["ovs"]]
                    allov += [len(m_["params"]) for c_ in lib.classes for m_ in c_["members"] if m_["kind"] == "ctor" and call["kind"] == "ctor" and c_ is call["cls"]]
                    maxar = max(allov + [len(x["params"]) for x in same] + [len(call["params"])])
                    if len(st_["args"]) <= maxar:
                        st_["args"] = st_["args"] + [{"k": "v", "v": 1}] * (maxar + 1 - len(st_["args"]))
                    exc = "TypeError"
                elif mode == "object":
                    if not params:
                        return False
                    i = s[7] % len(params)
                    if any(len(x["params"]) > i and x["params"][i].kind == "prim" and x["params"][i].name == "bool" for x in same + named):
                        return False           # a bool parameter accepts any object (truth value)
                    st_["args"] = list(pargs)
                    st_["args"][i] = {"k": "object"}
                    exc = "TypeError"
                elif mode == "range":
                    ints = [i for i, p in enumerate(params) if p.kind == "prim" and p.name in c01.RANGE and p.name != "bool"
                            and not ("range.unsigned64" in ctx.disabled_tags and p.name in ("unsigned long", "unsigned long long"))]
                    if not ints:
                        return False
                    i = ints[s[7] % len(ints)]
                    if call["kind"] == "ctor" or len(named or same) != 1:
                        return False           # another overload of this arity might take the value (a wider integer, a float)
                    lo, hi = c01.RANGE[params[i].name]
                    st_["args"] = list(pargs)
                    st_["args"][i] = {"k": "v", "v": hi + 1 if s[8] % 2 else lo - 1}
                    exc = "OverflowError"
                if mode == "constarg":
                    idxs = [i for i, p_ in enumerate(params) if p_.kind == "obj" and p_.mode in (1, 3) and any(x.get("const") for x in live(p_.ref))]
                    if not idxs:
                        return False
                    i = idxs[s[7] % len(idxs)]
                    cs = [x for x in live(params[i].ref) if x.get("const")]
                    if "const.coerce_copy" in ctx.disabled_tags and any(
                            m["kind"] == "ctor" and len(m["params"]) >= 1 and not m.get("explicit") and
                            not (len(m["params"]) == 1 and m["params"][0].kind == "obj" and m["params"][0].ref is params[i].ref and m["params"][0].mode in (1, 2))
                            for m in params[i].ref["members"]):      # any such constructor makes the class coercible (also from a tuple)
                        classes.append("avoided.const.coerce_copy")
                        return False          # known finding: a class with a converting constructor is silently copied instead

                    def maybe(a, b):
                        ca, cb = a.category(), b.category()
                        return ca == cb or {ca, cb} <= {"int", "float"}
                    for o in named:
                        if o["params"] == call["params"] or not (len(o["params"]) - o["ndef"] <= len(params) <= len(o["params"])):
                            continue
                        pi_ = o["params"][i] if i < len(o["params"]) else None
                        if pi_ is not None and pi_.kind == "obj" and (pi_.ref is params[i].ref or pi_.ref in hgen._ancestors(params[i].ref)) and pi_.mode in (0, 2, 4) and \
                                all(maybe(params[j], o["params"][j]) for j in range(len(params)) if j != i):
                            return False          # C++ would pick that overload instead: not an error
                    st_["args"] = list(pargs)
                    st_["args"][i] = {"k": "slot", "slot": cs[s[8] % len(cs)]["n"]}
                    exc = "TypeError"
                st_["expect_error"] = True
                st_.pop("bind", None)
                native.append('  vf_emit("STEP %d"); printf("ERR %d\\n");' % (n_step, n_step))
                expect.append({"kind": "error", "exc": exc, "this": this["n"] if this else None})
                steps.append(st_)
                kinds.add("negative." + mode)
                return True
            for p in params:
                pkinds.add(p.kind if p.kind != "prim" else p.name)
            args_cpp = ", ".join(cpp_arg(v) for v in vals)
            if call["kind"] == "ctor":
                n = len(slots)
                slots.append({"n": n, "cls": call["cls"], "alive": True, "owned": True, "const": False})
                native.append('  vf_emit("STEP %d"); ::%s *o%d = new ::%s(%s); printf("RET %d %%s\\n", vf_desc(o%d).c_str());' % (
                    n_step, call["cls"]["qname"], n, call["cls"]["qname"], args_cpp, n_step, n))
                expect.append({"kind": "ok", "obj": {"type": call["cls"]["name"], "const": 0, "owns": 1}})
                kinds.add("ctor")
            else:
                ret = call["ret"]
                src_slot = None
                if ret.kind == "obj" and ret.mode in (1, 2, 3, 4) and call["name"] not in OPNAME and s[8] % 3 != 1:
                    # the instrumented body hands back its first parameter of that class, else *this
                    for p_, v_ in zip(params, vals):
                        if p_.kind == "obj" and p_.ref is ret.ref and p_.mode != 0:
                            src_slot = slots[v_["slot"]] if v_["k"] == "slot" and not v_.get("derived") else None
                            break
                    else:
                        if this is not None and this["cls"] is ret.ref:
                            src_slot = this
                if src_slot is not None:
                    n = len(slots)
                    isconst = ret.mode in (2, 4)
                    slots.append({"n": n, "cls": ret.ref, "alive": True, "owned": False, "const": isconst, "owner": src_slot["n"]})
                    expr = native_call_expr(call, this, args_cpp)
                    cq = "const " if isconst else ""
                    native.append('  vf_emit("STEP %d"); %s::%s *o%d = %s(%s); printf("RET %d %%s\\n", vf_desc(o%d).c_str());' % (
                        n_step, cq, ret.ref["qname"], n, "&" if ret.mode in (1, 2) else "", expr, n_step, n))
                    st_["bind_result"] = n
                    kinds.add("borrowed-result" + (".const" if isconst else ""))
                else:
                    emit_native_ret(native_call_expr(call, this, args_cpp), call["ret"], n_step)
                obj = None
                if ret.kind == "obj" and call["name"] != "operator +=":       # an in-place operator hands back the very same wrapper
                    obj = {"type": ret.ref["name"], "const": 1 if ret.mode in (2, 4) else 0, "owns": 1 if ret.mode == 0 else 0}
                    if ret.mode == 0:
                        st_["keep"] = bool(s[8] % 2)
                expect.append({"kind": "ok", "obj": obj, "may_refuse": coerced})
                if coerced:
                    kinds.add("coercion")
                kinds.add(call["kind"] + (".default" if k else "") + (".overloaded" if len(call["ent"].get("ovs", [])) > 1 else "") +
                          (".kw" if use_kw else "") + (".alias" if alias else "") + (".operator" if call["name"] in OPNAME else "") +
                          (".derived-arg" if any(v.get("derived") for v in vals) else ""))
            steps.append(st_)
            return True

        for s in case["steps"]:
            a = s[0] % 12
            if a == 0 and live():
                # drop a reference the history holds: the interpreter must destroy what it owns
                cands = [x for x in live() if x["owned"] and x["cls"].get("dtor_vis", "public") in ("public", "published")]
                if not cands:
                    continue
                src = cands[s[1] % len(cands)]
                n_step = len(steps)
                native.append('  vf_emit("STEP %d"); delete o%d; printf("RET %d void\\n");' % (n_step, src["n"], n_step))
                steps.append({"op": "drop", "slot": src["n"]})
                expect.append({"kind": "ok", "obj": None})
                src["alive"] = False
                changed = True
                while changed:
                    changed = False
                    for x in slots:
                        if x["alive"] and x.get("owner") is not None and not slots[x["owner"]]["alive"]:
                            x["alive"] = False
                            changed = True
                kinds.add("drop")
                continue
            if a == 1 and fields and live():
                c, m = fields[s[1] % len(fields)]
                cands = live(c)
                if not cands:
                    continue
                this = cands[s[3] % len(cands)]
                n_step = len(steps)
                if s[2] % 2 and not this.get("const"):
                    v = c01.pick_value(m["t"], s[4], slots, True, python=True)
                    native.append('  vf_emit("STEP %d"); o%d->%s = %s; printf("RET %d void\\n");' % (n_step, this["n"], m["name"], c01.cpp_value(v), n_step))
                    steps.append({"op": "set", "on": this["n"], "name": m["name"], "args": [py_value(v, m["t"], lib)], "ret": "void"})
                    kinds.add("field.set")
                else:
                    emit_native_ret("o%d->%s" % (this["n"], m["name"]), m["t"], n_step)
                    steps.append({"op": "get", "on": this["n"], "name": m["name"], "ret": ret_code(m["t"])})
                    kinds.add("field.get")
                expect.append({"kind": "ok", "obj": None})
                continue
            if a == 2 and props and live():
                c, m = props[s[1] % len(props)]
                cands = live(c)
                if not cands:
                    continue
                this = cands[s[3] % len(cands)]
                n_step = len(steps)
                g = m["getter"]
                t = g["ovs"][0]["ret"]
                if s[2] % 2 and m.get("setter"):
                    v = c01.pick_value(m["setter"]["ovs"][0]["params"][0], s[4], slots, True, python=True)
                    if v is None or v["k"] == "null" or this.get("const"):
                        continue
                    native.append('  vf_emit("STEP %d"); o%d->%s(%s); printf("RET %d void\\n");' % (n_step, this["n"], m["setter"]["name"], c01.cpp_value(v), n_step))
                    steps.append({"op": "set", "on": this["n"], "name": m["name"], "args": [py_value(v, m["setter"]["ovs"][0]["params"][0], lib)], "ret": "void"})
                    kinds.add("property.set")
                    expect.append({"kind": "ok", "obj": None})
                else:
                    emit_native_ret("o%d->%s()" % (this["n"], g["name"]), t, n_step)
                    steps.append({"op": "get", "on": this["n"], "name": m["name"], "ret": ret_code(t)})
                    kinds.add("property.get")
                    obj = None
                    if t.kind == "obj":
                        obj = {"type": t.ref["name"], "const": 1 if t.mode in (2, 4) else 0, "owns": 0}
                    expect.append({"kind": "ok", "obj": obj})
                continue
            if a == 3 and seqs and live():
                c, m = seqs[s[1] % len(seqs)]
                cands = live(c)
                if not cands:
                    continue
                this = cands[s[3] % len(cands)]
                n_step = len(steps)
                native.append('  vf_emit("STEP %d"); { std::string q = "seq:"; int n = o%d->%s(); for (int i = 0; i < n; ++i) { if (i) q += ","; q += vf_ret(o%d->%s(i)); } printf("RET %d %%s\\n", q.c_str()); }' % (
                    n_step, this["n"], m["num"]["name"], this["n"], m["get"]["name"], n_step))
                alias = (not case["nomangle"]) and s[9] % 2 == 1
                steps.append({"op": "call", "on": this["n"], "name": pyname(m["name"], alias), "args": [], "ret": "seq:i32"})
                expect.append({"kind": "ok", "obj": None})
                kinds.add("seq")
                continue
            if not avail:
                continue
            if a in (6, 7):
                # probes: the shapes the dispatch rules are about (see enrich); a const wrapper, once the history owns one, is
                # offered to the overload that takes a non-const reference
                pcalls = [x for x in avail if x[0]["ent"] is not None and x[0]["ent"].get("id") in probe_ids]
                if pcalls:
                    call, k, w = pcalls[s[1] % len(pcalls)]
                    neg = None
                    refs = [p_ for p_ in call["params"] if p_.kind == "obj" and p_.mode in (1, 3)]
                    if refs and s[2] % 3:
                        for p_ in refs:
                            if not any(x.get("const") for x in live(p_.ref)):
                                # obtain a const wrapper first: the class's const method that hands out a const pointer/reference to itself
                                getters = [x for x in avail if x[0]["kind"] == "method" and x[0]["cls"] is p_.ref and not x[0]["params"] and x[0].get("const")
                                           and x[0]["ret"].kind == "obj" and x[0]["ret"].ref is p_.ref and x[0]["ret"].mode in (2, 4)]
                                if getters:
                                    s2 = list(s)
                                    s2[8] = 0
                                    do_call(getters[0][0], getters[0][1], getters[0][2], s2, 0, None)
                        if any(any(x.get("const") for x in live(p_.ref)) for p_ in refs):
                            neg = "constarg"
                    classes.append("probe" + (".constarg-requested" if neg else ""))
                    if not do_call(call, k, w, s, 0, neg) and neg:
                        classes.append("probe.constarg-not-possible")
                        do_call(call, k, w, s, 0, None)
                    continue
            pool = avail
            if a in (4, 5) or not live():
                pool = [x for x in avail if x[0]["kind"] == "ctor"] or avail
            elif a == 7:
                pool = [x for x in avail if x[0]["kind"] in ("func", "static")] or avail
            elif a >= 8:
                pool = [x for x in avail if x[0]["kind"] == "method"] or avail
            call, k, w = pool[s[1] % len(pool)]
            negative = {0: "arity+", 1: "object", 2: "range", 3: "constthis", 4: "constarg"}.get(s[6] % 12)
            do_call(call, k, w, s, 0, negative)
        if not steps:
            return Outcome(ok=True, classes=classes + ["empty-history"])
        # --- build
        src = c01.NATIVE_PRELUDE % lib.main + "\n".join(native) + '\n  vf_emit("STEP end");\n  printf("DONE\\n");\n  fflush(stdout);\n  return 0;\n}\n'
        run.write(os.path.join(d, "native.cxx"), src)
        c = bindgen.cc(d, "impl_l.cxx", "impl.o", lib=lib, python=False)
        if c.rc != 0:
            raise core.Broken("generated implementation does not compile: " + c.err.decode("latin-1")[-600:])
        c = igate.gxx(d, ["-O0", "-I", igate.SYS] + lib.gxx_inc + ["native.cxx", "impl.o", "-o", "native"], timeout=300)
        if c.rc != 0:
            errs = c03._errlines(c.err)
            if "ambiguous" in errs:
                return Outcome(discard=True, classes=classes + ["native-ambiguous"])       # the history asks for a call C++ itself rejects
            raise core.Broken("generated native driver does not compile: " + errs + "\n" + "\n".join(native[:40]))
        c = bindgen.cc(d, "l_igate.cxx", "l_igate.o", lib=lib, python=True)
        if c.rc != 0:
            return Outcome(ok=True, classes=classes + ["code-does-not-compile", "cdnc:" + (bindgen.first_errors(c.err.decode("latin-1")) or ["?"])[0]])
        rm = igate.interrogate_module(d, ["l.in"], opts=["-python-native"], module="m", library="m")
        if rm.rc != 0:
            return Outcome(ok=True, classes=classes + ["module-failed"])
        c = bindgen.cc(d, "m_module.cxx", "m_module.o", lib=lib, python=True)
        if c.rc != 0:
            return Outcome(ok=True, classes=classes + ["code-does-not-compile"])
        lk = bindgen.link(d, ["l_igate.o", "m_module.o", "impl.o"], "m.so")
        if lk.rc != 0:
            return Outcome(ok=True, classes=classes + ["link-failed"])
        ntrace, wtrace = os.path.join(d, "native.trace"), os.path.join(d, "wrapped.trace")
        rn = run.run([os.path.join(d, "native")], cwd=d, env=run.base_env({"VF_TRACE": ntrace}), timeout=60)
        if rn.rc != 0 or b"DONE" not in rn.out:
            return Outcome(discard=True, classes=classes + ["native-failed"], detail="native driver: %s %s" % (rn.kind(), rn.err[-200:].decode("latin-1")))
        run.write(os.path.join(d, "plan.json"), json.dumps({"so": os.path.join(d, "m.so"), "steps": steps, "module": "m"}))
        rw = run.run([bindgen.PY, os.path.join(build.VERIF, "vf", "drv_native.py"), "plan.json"], cwd=d, env=run.base_env({"VF_TRACE": wtrace, "PYTHONPATH": d}), timeout=120, mem_mb=0)
        hist = "\n".join("  %2d %s" % (i, _show(st_)) for i, st_ in enumerate(steps))
        plan_txt = "history (Python form):\n%s\nnative form:\n%s" % (hist, "\n".join(native))
        wout = rw.out.decode("latin-1").splitlines()
        if rw.signal or rw.timed_out or "DONE" not in wout:
            done = len([l for l in wout if l.startswith(("RET ", "ERR "))])
            if b"NameError" in rw.err or b"ImportError" in rw.err:
                return Outcome(ok=True, classes=classes + ["load.unsatisfied-import"])
            return Outcome(ok=False, key="interpreter-died:%s" % rw.kind(), classes=classes,
                           detail="the Python run dies (%s) at step %d of %d: %s\n%s" % (rw.kind(), done, len(steps), rw.err[-400:].decode("latin-1"), plan_txt))

        def split(path):
            """trace lines grouped by STEP marker"""
            groups = {}
            cur = None
            for l in open(path, encoding="latin-1").read().splitlines():
                if l.startswith("STEP "):
                    cur = l[5:]
                    groups.setdefault(cur, [])
                elif cur is not None:
                    groups[cur].append(l)
            return groups
        ng, wg = split(ntrace), split(wtrace)
        nres = {int(l.split(" ")[1]): l for l in rn.out.decode("latin-1").splitlines() if l.startswith(("RET ", "ERR "))}
        wres = {int(l.split(" ")[1]): l for l in wout if l.startswith(("RET ", "ERR "))}
        wobj = {int(l.split(" ")[1]): l for l in wout if l.startswith("OBJ ")}
        ren_n, ren_w = {}, {}

        def canon(text, ren):
            def sub(m):
                return "o:#%d" % ren.setdefault(m.group(1), len(ren))
            return re.sub(r"o:(\d+)", sub, text)
        def relevant(lines, step):
            out = [l for l in lines if l.startswith("CALL ") and not _scratch(l, step)]
            if step["op"] == "new" and not step.get("expect_error"):
                # the construction the step asks for is the last one; earlier ones are scratch objects of argument coercion
                ctors = [l for l in out if l.endswith("-> ctor")]
                out = [l for l in out if not l.endswith("-> ctor")] + ctors[-1:]
            return out
        for i, ex in enumerate(expect):
            wl = wres.get(i, "missing")
            calls_n = relevant(ng.get(str(i), []), steps[i])
            calls_w = relevant(wg.get(str(i), []), steps[i])
            if ex["kind"] == "error":
                if not wl.startswith("ERR %d %s" % (i, ex["exc"])):
                    got = wl.split(" ")[2] if wl.startswith("ERR") else "no exception"
                    return Outcome(ok=False, key="wrong-call-accepted" if not wl.startswith("ERR") else "wrong-exception:%s-for-%s" % (got, ex["exc"]), classes=classes,
                                   detail="step %d (%s) must raise %s but gives %r; library calls made: %r\n%s" % (i, _show(steps[i]), ex["exc"], wl, calls_w, plan_txt))
                if calls_w:
                    return Outcome(ok=False, key="rejected-call-reaches-library", classes=classes,
                                   detail="step %d (%s) raises %s but the library was called: %r\n%s" % (i, _show(steps[i]), ex["exc"], calls_w, plan_txt))
                continue
            nl = nres.get(i, "missing")
            if ex.get("may_refuse") and wl.startswith("ERR %d TypeError" % i) and not calls_w:
                classes.append("coercion.refused")       # converting the argument is optional for the binding layer; doing it wrongly is not
                continue
            if ex.get("may_refuse"):
                classes.append("coercion.accepted")
            # object tags are compared up to renaming: the binding layer's scratch objects consume tags of their own
            calls_n = [canon(l, ren_n) for l in calls_n]
            calls_w = [canon(l, ren_w) for l in calls_w]
            nl, wl = canon(nl, ren_n), canon(wl, ren_w)
            if wl.startswith("ERR"):
                return Outcome(ok=False, key="valid-call-raises:%s" % wl.split(" ")[2], classes=classes,
                               detail="step %d (%s) is a valid call (native: %r) but Python raises: %s\n%s" % (i, _show(steps[i]), nl, wl, plan_txt))
            if calls_n != calls_w:
                la = [l.split(" ")[1] for l in calls_n]
                lb = [l.split(" ")[1] for l in calls_w]
                key = "wrong-overload-runs" if la != lb else "call-differs"
                return Outcome(ok=False, key=key, classes=classes,
                               detail="step %d (%s): native run logs\n  %s\nPython run logs\n  %s\n%s" % (i, _show(steps[i]), "\n  ".join(calls_n) or "(nothing)", "\n  ".join(calls_w) or "(nothing)", plan_txt))
            if nl != wl:
                return Outcome(ok=False, key="return-value-differs:%s" % nl.split(" ")[2].split(":")[0], classes=classes,
                               detail="step %d (%s) returns %r natively but %r in Python\n%s" % (i, _show(steps[i]), nl, wl, plan_txt))
            if ex.get("obj") and i in wobj and not nl.endswith("nil"):
                m = re.match(r"OBJ \d+ type=(\S+) const=(\d) owns=(\d)", wobj[i])
                got = {"type": m.group(1), "const": int(m.group(2)), "owns": int(m.group(3))}
                for fld in ("type", "const", "owns"):
                    if got[fld] != ex["obj"][fld]:
                        return Outcome(ok=False, key="object-%s-wrong" % fld, classes=classes,
                                       detail="step %d (%s): returned wrapper has %s=%r, the C++ signature implies %r\n%s" % (i, _show(steps[i]), fld, got[fld], ex["obj"][fld], plan_txt))
        # --- lifetime accounting over the whole Python run
        births, deaths = {}, {}
        allw = open(wtrace, encoding="latin-1").read().splitlines()
        for l in allw:
            m = re.match(r"(BIRTH|COPY) (\d+) u(\d+)", l)
            if m:
                births[int(m.group(3))] = l
            m = re.match(r"DEATH (\d+) u(\d+)", l)
            if m:
                u = int(m.group(2))
                deaths[u] = deaths.get(u, 0) + 1
        bad = [l for l in allw if "DOUBLE-DEATH" in l or "!DEAD" in l]
        if bad:
            return Outcome(ok=False, key="double-free-or-use-after-free", classes=classes, detail="Python run: %s\n%s" % (bad[0], plan_txt))
        livel = [l for l in wout if l.startswith("LIVE ")]
        undestructible = any(c.get("dtor_vis", "public") not in ("public", "published") for c in lib.classes)
        if livel and int(livel[0].split(" ")[1]) != 0 and not undestructible:
            leaked = [births[u] for u in births if u not in deaths][:3]
            return Outcome(ok=False, key="leak", classes=classes, detail="after dropping every reference %s C++ objects are still alive, e.g. %r\n%s" % (livel[0].split(" ")[1], leaked, plan_txt))
    nt = []
    executed = [e for e in expect if e["kind"] == "ok"]
    if len(executed) >= 6 and any(".default" in k or ".overloaded" in k for k in kinds) and "drop" in kinds and ("class" in str(pkinds) or "obj" in pkinds or any(e.get("obj") for e in expect)):
        nt.append((tuple(flags), tuple(sorted(kinds))[:10], tuple(sorted(pkinds))[:8]))
    for k in kinds:
        classes.append("step." + k)
    return Outcome(ok=True, nontrivial=nt, classes=classes + ["compared"],
                   sample={"options": flags, "steps": len(steps), "kinds": sorted(kinds), "param_kinds": sorted(pkinds), "history": [_show(s_) for s_ in steps[:6]]})


def _scratch(line, step):
    """constructor/destructor calls other than the one a 'new'/'drop' step asks for: the wrappers default-construct and destroy
    scratch objects while trying coercions, and copies made for by-value results die at different times natively"""
    if line.endswith("-> dtor"):
        return step["op"] != "drop"
    if line.endswith("-> ctor"):
        return step["op"] != "new" or step.get("expect_error")
    return False


def _public_path(derived, base):
    """base reachable from derived through public, unambiguous inheritance"""
    paths = []

    def walk(c, acc_ok):
        for b in c["bases"]:
            ok = acc_ok and b["acc"] == "public"
            if b["c"] is base:
                paths.append(ok)
            walk(b["c"], ok)
    walk(derived, True)
    return len(paths) == 1 and paths[0]


def _show(st_):
    def a(x):
        k = x["k"]
        if k == "v":
            return repr(x["v"])
        if k == "float":
            return repr(float.fromhex(x["hex"]))
        if k == "str":
            return repr(bytes.fromhex(x["hex"]).decode("utf-8"))
        if k == "slot":
            return "o%d" % x["slot"]
        if k == "attr":
            return ".".join(x["path"])
        return k + "()"
    args = ", ".join([a(x) for x in st_.get("args", [])] + ["%s=%s" % (k, a(v)) for k, v in st_.get("kwargs", {}).items()])
    op = st_["op"]
    if op == "new":
        return "o%d = %s(%s)" % (st_["bind"] if "bind" in st_ else -1, ".".join(st_["path"]), args)
    if op == "call":
        return "o%d.%s(%s)" % (st_["on"], st_["name"], args)
    if op == "binop":
        return "operator.%s(o%d, %s)" % (st_["name"], st_["on"], args)
    if op == "pcall":
        return "%s(%s)" % (".".join(st_["path"]), args)
    if op == "get":
        return "o%d.%s" % (st_["on"], st_["name"])
    if op == "set":
        return "o%d.%s = %s" % (st_["on"], st_["name"], args)
    if op == "drop":
        return "del o%d" % st_["slot"]
    return op


def worker(ctx, widx, stage, stats):
    f = core.hypothesis_search(None, ctx, _strategy(ctx), judge, ctx.pick(40, 600), ctx.seed * 1000 + widx, stats, time_budget=ctx.pick(150, 1500))
    return [f] if f else []
