"""C17 -- include lookup, once-only inclusion, file ownership (a) and path normalisation (b)."""
import os
import re

from hypothesis import strategies as st

from .. import aux, core, igate, run
from ..core import Outcome

ID = "C17"
LEVEL = "exploration"
ENGINE = "hypothesis + rapidcheck + exhaustive enumeration"
TECHNIQUE = "model-based testing of generated directory layouts against the stated search rule (Hypothesis), plus exhaustive/rapidcheck testing of Filename normalisation with the kernel's stat() as oracle"
RULE = ("(a) Hypothesis generates directory trees: the header h.h exists in a random subset of {working directory, includer's directory, "
        "two -I directories, two -S directories}, each copy announcing its directory through a macro that becomes an array bound in "
        "the database; include form quote/angle; -I/-S options in generated order; -noangles; the includer named with or without a "
        "directory component; a #pragma once header included under several spellings (./, a/../, //, symlinked directory, symlinked "
        "file, absolute); missing files. The model of the stated rule predicts which copy is used, whether its declarations are "
        "exported (ownership) and that a once-only file contributes once. (b) every path string over {a,b,f,ls,lf,.,..,empty} up to 5 "
        "components (6 thorough), relative and absolute, plus rapidcheck paths of 5-10 components, in a real tree with symlinks: "
        "standardize and make_canonical idempotent; stat() identity preserved. Non-trivial: (a) >=2 candidate directories hold the header "
        "and the winner is not the first -I, or a spelling set of size>=3; (b) a path with '..' after a name; distinct by layout signature.")
ASSUMPTIONS = ["the search rule is the statement's: quotes: cwd, includer's directory, then -I/-S in command-line order; angles: -S only (like quotes under -noangles)",
               "standardize is lexical, so stat identity is required only on symlink-free paths; make_canonical is judged on paths that exist",
               "which copy was included is observed through an array bound recorded in the database (C07's mechanism)"]
NONTRIVIAL_FLOOR = 20

DIRS = ["cwd", "sub", "i1", "i2", "s1", "s2"]
DIRNUM = {"cwd": 1, "sub": 2, "i1": 3, "i2": 4, "s1": 5, "s2": 6}
SPELLINGS = ["once.h", "./once.h", "od/../once.h", ".//once.h", "lnk/once.h", "once_link.h", "od/..//once.h", "ABS"]


def stages(ctx):
    return [("layouts", 12), ("paths", 2)]


def _strategy(ctx):
    return st.builds(lambda present, form, order, noangles, indir, spell, missing, once_cmd, present2: {
        "present": present, "form": form, "order": order, "noangles": noangles, "indir": indir, "spell": spell, "missing": missing, "once_cmd": once_cmd,
        "present2": present2},
                     st.lists(st.sampled_from(DIRS), min_size=0, max_size=6, unique=True), st.sampled_from(["quote", "angle"]),
                     st.permutations(["i1", "i2", "s1", "s2"]), st.booleans(), st.booleans(),
                     st.lists(st.integers(0, len(SPELLINGS) - 1), min_size=0, max_size=4), st.booleans(), st.booleans(),
                     st.lists(st.sampled_from(DIRS), min_size=0, max_size=6, unique=True))


def model_lookup2(case, winner):
    """the second level: the copy of h.h that was found includes "h2.h"; its own directory is now the includer's directory"""
    if winner is None:
        return None
    present = set(case["present2"])
    if not case["indir"]:
        present.discard("sub")
    cands = ["cwd"] + ([winner] if winner != "cwd" else []) + list(case["order"])
    for d in cands:
        if d in present:
            return d
    return None


def model_lookup(case):
    """which directory's copy the stated rule selects (None = not found)"""
    present = set(case["present"])
    if not case["indir"]:
        present.discard("sub")           # the includer lives in the working directory: no separate includer's directory
    order = list(case["order"])
    quote_like = case["form"] == "quote" or case["noangles"]
    if quote_like:
        cands = ["cwd"] + (["sub"] if case["indir"] else []) + order
    else:
        cands = [d for d in order if d.startswith("s")]
    for d in cands:
        if d in present:
            return d
    return None


def judge(case, ctx):
    winner = model_lookup(case)
    with run.Scratch("c17") as d:
        dirmap = {"cwd": d, "sub": os.path.join(d, "sub"), "i1": os.path.join(d, "i1"), "i2": os.path.join(d, "i2"),
                  "s1": os.path.join(d, "s1"), "s2": os.path.join(d, "s2")}
        for p in dirmap.values():
            os.makedirs(p, exist_ok=True)
        for name in case["present"]:
            if name == "sub" and not case["indir"]:
                continue
            second = '#include "h2.h"\n#ifndef WHICH2\n#define WHICH2 99\n#endif\n' if case.get("present2") is not None else ""
            run.write(os.path.join(dirmap[name], "h.h"),
                      "#define WHICH %d\nBEGIN_PUBLISH\nint owned_by_%s(int a);\nEND_PUBLISH\n%s" % (DIRNUM[name], name, second))
        for name in case.get("present2") or []:
            if name == "sub" and not case["indir"]:
                continue
            run.write(os.path.join(dirmap[name], "h2.h"), "#define WHICH2 %d\n" % DIRNUM[name])
        # once-only header and its spellings
        os.makedirs(os.path.join(d, "od"), exist_ok=True)
        once_dir = os.path.join(d, "sub") if case["indir"] else d
        run.write(os.path.join(once_dir, "once.h"), "#pragma once\n#ifdef SEEN1\n#define SEEN2\n#endif\n#define SEEN1\n"
                  "#include <verif_prelude.h>\nBEGIN_PUBLISH\nint once_fn(int a);\nEND_PUBLISH\n")
        os.makedirs(os.path.join(once_dir, "od"), exist_ok=True)
        if not os.path.lexists(os.path.join(once_dir, "lnk")):
            os.symlink(".", os.path.join(once_dir, "lnk"))
        if not os.path.lexists(os.path.join(once_dir, "once_link.h")):
            os.symlink("once.h", os.path.join(once_dir, "once_link.h"))
        inc = '#include "h.h"' if case["form"] == "quote" else "#include <h.h>"
        lines = ["#include <verif_prelude.h>", inc, "#ifndef WHICH", "#define WHICH 99", "#endif"]
        spells = []
        for i in case["spell"]:
            sp = SPELLINGS[i]
            if sp == "ABS":
                sp = os.path.join(once_dir, "once.h")
            spells.append(sp)
            lines.append('#include "%s"' % sp)
        if case["missing"]:
            lines.append('#include "does_not_exist.h"')
        lines += ["#ifndef WHICH2", "#define WHICH2 98", "#endif", "BEGIN_PUBLISH", "extern int which2_arr[WHICH2];", "END_PUBLISH"]
        lines += ["BEGIN_PUBLISH", "extern int which_arr[WHICH];", "#ifdef SEEN2", "extern int seen_arr[2];", "#else", "extern int seen_arr[1];", "#endif",
                  "int main_fn(int a);", "END_PUBLISH"]
        mainrel = "sub/main.h" if case["indir"] else "main.h"
        run.write(os.path.join(d, mainrel), "\n".join(lines) + "\n")
        search = []
        for name in case["order"]:
            search.append(("-I" if name.startswith("i") else "-S") + name)
        opts = ["-c", "-fnames"] + (["-noangles"] if case["noangles"] else [])
        # the once-only header may itself be named on the command line, after the file that includes it: it is then the
        # user's own file however the #include that reached it first spelled its path
        cmdline = [mainrel] + ([("sub/once.h" if case["indir"] else "once.h")] if case.get("once_cmd") else [])
        r = igate.interrogate(d, cmdline, opts=opts, extra_search=search)
        if r.abnormal:
            return Outcome(ok=False, key="crash:" + r.kind(), detail="interrogate died (%s): %s" % (r.kind(), r.err.decode("latin-1")[-300:]))
        if r.rc != 0:
            return Outcome(ok=False, key="rejected", detail="interrogate fails (rc=%d) on a layout with %s: %s" % (
                r.rc, "a missing include (must be skipped with a warning)" if case["missing"] or winner is None else "resolvable includes",
                r.err.decode("latin-1")[-400:]))
        db = igate.load_db(os.path.join(d, "l.in"))
        err = ""
        if case["missing"]:
            # interrogate only prints warnings at raised verbosity; parse_file shows them by default
            rp = igate.parse_file(d, [mainrel], opts=search, timeout=30)
            if rp.abnormal or rp.rc != 0:
                return Outcome(ok=False, key="missing-fatal", detail="parse_file fails (%s) on a file with a missing include" % rp.kind())
            err = rp.err.decode("latin-1")
    T = {t["index"]: t for t in db["types"]}
    arrays = {e["name"]: T[e["type"]].get("array_size") for e in db["elements"] if e["type"] in T}
    fnames = {f["scoped_name"] for f in db["functions"]}
    desc = "present in %s, %s include, options %s%s, includer %s" % (sorted(case["present"]), case["form"], " ".join(search),
                                                                      " -noangles" if case["noangles"] else "", mainrel)
    got = arrays.get("which_arr")
    want = DIRNUM[winner] if winner else 99
    if got != want:
        back = {v: k for k, v in DIRNUM.items()}
        return Outcome(ok=False, key="lookup", detail="the include resolved to the copy in %s, the stated rule selects %s (%s)" % (
            back.get(got, "none" if got == 99 else got), winner or "none", desc))
    if case.get("present2") is not None:
        w2 = model_lookup2(case, winner)
        want2 = 98 if winner is None else (DIRNUM[w2] if w2 else 99)
        got2 = arrays.get("which2_arr")
        if got2 != want2:
            back = {v: k for k, v in DIRNUM.items()}
            return Outcome(ok=False, key="lookup-nested", detail="h.h was found in %s; its #include \"h2.h\" resolved to the copy in %s, the stated rule selects %s "
                           "(h2.h present in %s; %s)" % (winner, back.get(got2, "none" if got2 in (98, 99) else got2), w2 or "none", sorted(case["present2"]), desc))
    if winner is None or case["missing"]:
        if "does_not_exist.h" not in err and case["missing"]:
            return Outcome(ok=False, key="no-warning", detail="a missing include file is skipped without a warning (%s)" % desc)
    # ownership: declarations of the included copy are exported iff it was found in the working directory
    owned = {n for n in fnames if n.startswith("owned_by_")}
    want_owned = {"owned_by_cwd"} if winner == "cwd" else set()
    if owned != want_owned:
        return Outcome(ok=False, key="ownership", detail="exported declarations of included files: %s; the rule allows %s (winner %s; %s)" % (
            sorted(owned), sorted(want_owned), winner, desc))
    if "main_fn" not in fnames:
        return Outcome(ok=False, key="ownership-main", detail="the command-line file's own declaration is not exported (%s)" % desc)
    if case.get("once_cmd") and "once_fn" not in fnames:
        return Outcome(ok=False, key="ownership-cmdline-once", detail="once.h is named on the command line but its published declaration is not exported "
                       "(it was first reached through #include %s from %s)" % (spells, mainrel))
    if spells and arrays.get("seen_arr") != 1:
        return Outcome(ok=False, key="once", detail="a #pragma once header included as %s contributed more than once" % spells)
    ncand = len([x for x in case["present"] if x != "sub" or case["indir"]])
    nt = []
    if (ncand >= 2 and winner is not None and winner != [x for x in case["order"] if x.startswith("i")][0]) or len(set(spells)) >= 3:
        nt.append("%s|%s|%s|%s|%s|%d" % (sorted(case["present"]), case["form"], case["order"], case["noangles"], case["indir"], len(set(spells))))
    return Outcome(ok=True, nontrivial=nt, classes=["form." + case["form"], "winner.%s" % winner, "noangles" if case["noangles"] else "angles",
                                                   "spellings%d" % len(set(spells))] + (["missing"] if case["missing"] else []) + (["once-on-cmdline"] if case.get("once_cmd") else []),
                   sample={"layout": desc, "winner": winner, "spellings": spells})


def judge_path(case, ctx):
    h = aux.ensure_harness("rc_path", "std", libs=("dtoolutil", "dtoolbase"), extra=("-lrapidcheck",))
    r = run.run([h, "one", case["path"]], timeout=60)
    if r.rc == 0:
        return Outcome(ok=True)
    return Outcome(ok=False, key="path", detail=r.out.decode("latin-1")[-400:])


_judge_layout = judge


def judge(case, ctx):          # noqa: F811  (dispatch on the case shape)
    if "path" in case:
        return judge_path(case, ctx)
    return _judge_layout(case, ctx)


def worker(ctx, widx, stage, stats):
    if stage == "layouts":
        f = core.hypothesis_search(None, ctx, _strategy(ctx), judge, ctx.pick(300, 4000), ctx.seed * 1000 + widx, stats,
                                   time_budget=ctx.pick(80, 900))
        return [f] if f else []
    h = aux.ensure_harness("rc_path", "std", libs=("dtoolutil", "dtoolbase"), extra=("-lrapidcheck",))
    env = run.base_env()
    if widx == 0:
        r = run.run([h, "enum", str(ctx.pick(5, 6))], timeout=3000, env=env)
        stats.extra["exhaustive_path_components_max"] = ctx.pick(5, 6)
        stats.extra["exhaustive"] = True
    else:
        env["RC_PARAMS"] = "seed=%d max_success=%d max_size=1000" % (ctx.seed * 1000 + 17, ctx.pick(20000, 300000))
        r = run.run([h, "random"], timeout=3000, env=env)
    out = r.out.decode("latin-1")
    m = re.search(r"STAT evaluations (\d+)", out)
    if m:
        stats.evaluations += int(m.group(1))
    m = re.search(r"STAT nontrivial (\d+)", out)
    if m:
        for i in range(min(int(m.group(1)), 5000)):
            stats.nontrivial.add("path-%d-%d" % (widx, i))
    stats.classes["paths.%s" % ("enum" if widx == 0 else "random")] += 1
    if r.abnormal:
        raise core.Broken("rc_path died: " + r.err.decode("latin-1")[-300:])
    if r.rc == 0:
        return []
    cm = re.findall(r"^CASE (.*)$", out, re.M)
    fm = re.findall(r"^FAIL (.*)$", out, re.M)
    if not cm:
        raise core.Broken("rc_path failed without a case: " + out[-300:])
    return [dict(case={"path": cm[-1]}, detail=fm[-1] if fm else "", key="path")]
