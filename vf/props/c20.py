"""C20 -- the query interface is total and name lookups are exact."""
import json
import os

from hypothesis import strategies as st

from .. import core, dbgen, idb, idbfmt, ifacegen, igate, run
from ..core import Outcome
from . import c12

ID = "C20"
LEVEL = "exploration"
TECHNIQUE = "property-based testing (Hypothesis model databases) with an exhaustive index/position sweep of every interface function extracted from the header; ASan/UBSan build"
RULE = ("Hypothesis generates databases (vf/dbgen.py) and unique-name tables; for each, EVERY function of interrogate_interface.h "
        "(table generated from the header) is called with every index in [-2, next_index+2] plus INT_MIN/INT_MAX/2^30 and every "
        "position in [-2, count+2] plus extremes, in one ASan/UBSan process; every stored name, mutated names and absent names are "
        "looked up; unique-name tables of every size 0..n are queried with present keys, keys between/below/above and strings of "
        "length 0-3. Non-trivial: calls with an index that is out of range or of the wrong kind, and lookups of absent keys "
        "strictly between present keys; distinct by (function, index class).")
ASSUMPTIONS = ["which indices are live records of which kind is read from the file by the independent codec (vf/idbfmt.py)",
               "neutral value = 0 / false / empty string / null pointer", "a by-name lookup of a name borne by several records may return any of them"]
NONTRIVIAL_FLOOR = 200

RET_NEUTRAL = (0, False, "", None)
# documented defaults of an unknown record that are not 0: a type that is not an array has array size 1
NEUTRAL_EXCEPT = {"interrogate_type_array_size": 1}


def _neutral(fn, val):
    return val in RET_NEUTRAL or (fn in NEUTRAL_EXCEPT and val == NEUTRAL_EXCEPT[fn])


def stages(ctx):
    return [("model", 12), ("real", 4)]


def _mut(name, k):
    if k == 0:
        return name + "x"
    if k == 1:
        return name[:-1]
    if k == 2:
        sw = "".join(c.swapcase() if c.isascii() else c for c in name)
        return sw if sw != name else name + "_"
    if k == 3:
        return "z" + name
    return name * 40


def _strategy(ctx):
    keys = st.lists(st.text(alphabet="abcdefXYZ019_", min_size=1, max_size=6), min_size=0, max_size=9, unique=True)
    return st.builds(lambda db, keys, hashname, db2: {"db": db, "keys": sorted(keys), "hash": hashname, "db2": db2},
                     dbgen.model_dbs(max_each=4), keys, st.sampled_from(["abcd", "0zDC", "____"]),
                     st.one_of(st.none(), dbgen.model_dbs(max_each=3, lib="libsecond")))


_FNS = None


def fns():
    global _FNS
    if _FNS is None:
        _FNS = {f["name"]: f for f in ifacegen.classify(ifacegen.parse_header())}
    return _FNS


def sweep_check(lines, db, stats_nt, classes):
    """Apply the totality oracle to the output of 'sweep'.  Returns (key, detail) or None."""
    live = {k: set(r["index"] for r in db[idbfmt.KINDS[i]]) for i, k in enumerate("fwtmes")}
    F = fns()
    begun = None
    alllive = set().union(*live.values())
    top = max(alllive) if alllive else 0

    def icls(idx):
        if abs(idx) >= 1 << 30:
            return "extreme"
        if idx < 0:
            return "neg"
        if idx == 0:
            return "zero"
        if idx in alllive:
            return "wrongkind"
        return "above" if idx > top else "gap"
    for ln in lines:
        if ln.startswith("BEGIN "):
            begun = ln[6:]
            continue
        if not ln or ln[0] not in "UBP" or ln[1] != " ":
            continue
        parts = ln.split(" ", 5 if ln[0] == "B" else (4 if ln[0] == "P" else 3))
        fn = parts[1]
        f = F[fn]
        if ln[0] == "U":
            idx = int(parts[2]); val = json.loads(parts[3])
            is_live = idx in live.get(f["kind"], ())
            if not is_live:
                stats_nt.add("%s|%s" % (fn, icls(idx)))
                if not _neutral(fn, val):
                    return ("non-neutral", "%s(%d) on a non-existent %s record returns %r" % (fn, idx, f["kind"], val))
        elif ln[0] == "B":
            idx = int(parts[2]); n = int(parts[3]); k = int(parts[4]); val = json.loads(parts[5])
            is_live = idx in live.get(f["kind"], ())
            inside = is_live and n >= 0 and 0 <= k < n
            if not inside:
                stats_nt.add("%s|%s" % (fn, icls(idx) if not is_live else ("posneg" if k < 0 else "posabove")))
                if not _neutral(fn, val):
                    return ("non-neutral", "%s(%d, %d) (count %d) returns %r instead of a neutral value" % (fn, idx, k, n, val))
            elif f["rk"].isupper() and val != 0 and val not in live[f["rk"].lower()]:
                return ("dangling", "%s(%d, %d) returns %d which is not a live %s index" % (fn, idx, k, val, f["rk"]))
        else:
            n = int(parts[2]); k = int(parts[3]); val = json.loads(parts[4])
            if 0 <= k < n:
                if f["rk"].isupper() and val not in live[f["rk"].lower()]:
                    return ("enum-count", "%s(%d) (count %d) returns %r which is not a live %s index: the count does not match the accessor" % (fn, k, n, val, f["rk"]))
            else:
                stats_nt.add("%s|pos" % fn)
                if not _neutral(fn, val):
                    return ("non-neutral", "%s(%d) with count %d returns %r" % (fn, k, n, val))
    if "ENDSWEEP" not in lines:
        return ("crash-in-sweep", "the sweep stopped inside %s" % begun)
    classes.append("sweep")
    return None


LOOKUPS = [("interrogate_get_type_by_name", "types", "name"), ("interrogate_get_type_by_scoped_name", "types", "scoped_name"),
           ("interrogate_get_type_by_true_name", "types", "true_name"), ("interrogate_get_manifest_by_name", "manifests", "name"),
           ("interrogate_get_element_by_name", "elements", "name"), ("interrogate_get_element_by_scoped_name", "elements", "scoped_name")]


def check_db(d, data, db, nt, classes):
    path = os.path.join(d, "f.in")
    run.write(path, data)
    nxt = 1 + sum(len(db[k]) for k in idbfmt.KINDS)
    cmds = ["req " + path, "sweep -2 %d" % (nxt + 2)]
    queries = []
    for fn, kind, fld in LOOKUPS:
        names = {}
        for r in db[kind]:
            names.setdefault(r[fld], []).append(r["index"])
        for nm, idxs in names.items():
            if "\x00" in nm:
                continue
            queries.append((fn, nm, idxs))
            for k in range(5):
                m = _mut(nm, k)
                if m not in names and "\x00" not in m:
                    queries.append((fn, m, []))
        queries.append((fn, "", names.get("", [])))
    for fn, nm, idxs in queries:
        cmds.append("byname %s %s" % (fn, idb.hexs(nm)))
    cmds.append("echo done")
    r = idb.run_script(cmds, timeout=300)
    if r.res.abnormal or r.res.rc != 0:
        begun = [l for l in r.lines if l.startswith("BEGIN ")][-1:]
        return ("crash:" + r.res.kind(), "query interface died (%s) %s: %s" % (r.res.kind(), begun, r.res.err.decode("latin-1")[-500:]))
    bad = sweep_check(r.lines, db, nt, classes)
    if bad:
        return bad
    i0 = r.lines.index("ENDSWEEP") + 1
    res = [json.loads(l[2:]) for l in r.lines[i0:] if l.startswith("R ")]
    if len(res) != len(queries):
        return ("harness", "lookup results missing")
    for (fn, nm, idxs), got in zip(queries, res):
        if idxs:
            if got not in idxs:
                return ("lookup-miss", "%s(%r) returns %r but the name is borne by %s" % (fn, nm, got, idxs))
            classes.append("lookup.present")
        else:
            nt.add("%s|absent" % fn)
            if got != 0:
                return ("lookup-phantom", "%s(%r) returns %r for a name nothing bears" % (fn, nm, got))
    return None


def check_incremental(d, data1, db2, nt, classes):
    """history: load file 1, answer lookups (so the name tables are built), request file 2, look up its names"""
    import copy
    db2 = copy.deepcopy(db2)
    for kind in ("types", "elements", "manifests"):
        for n, r in enumerate(db2[kind]):
            r["name"] = "second_%s_%d" % (kind[0], n)
            r["scoped_name"] = "ns2::" + r["name"] if kind != "manifests" else r.get("scoped_name", "")
            if kind == "types":
                r["true_name"] = "ns2::" + r["name"]
    p1, p2 = os.path.join(d, "f.in"), os.path.join(d, "g.in")
    run.write(p1, data1)
    run.write(p2, idbfmt.serialise(db2))
    cmds = ["req " + p1]
    for fn, kind, fld in LOOKUPS:
        cmds.append("byname %s %s" % (fn, idb.hexs("warm_up_the_table")))
    cmds.append("req " + p2)
    queries = []
    for fn, kind, fld in LOOKUPS:
        for r in db2[kind]:
            if r[fld]:
                queries.append((fn, r[fld]))
                cmds.append("byname %s %s" % (fn, idb.hexs(r[fld])))
    cmds.append("echo done")
    r = idb.run_script(cmds, timeout=120)
    if r.res.abnormal or r.res.rc != 0:
        return ("crash:" + r.res.kind(), "incremental load history died: " + r.res.err.decode("latin-1")[-300:])
    res = [json.loads(l[2:]) for l in r.lines if l.startswith("R ")][len(LOOKUPS):]
    for (fn, nm), got in zip(queries, res):
        if got == 0:
            return ("lookup-stale", "%s(%r) returns 0 although a database requested after the first lookups defines that name" % (fn, nm))
        nt.add("%s|after-second-load" % fn)
    classes.append("incremental_load")
    return None


def check_unique_names(keys, hashname, nt, classes):
    """module definitions with unique-name tables of every size 0..n"""
    for n in range(len(keys) + 1):
        table = keys[:n]
        cmds = ["reqmod - 1 lib:%s 1 %d %d %s" % (hashname, 1 + max(n, 1), n, " ".join("%s %d" % (idb.hexs(k), i) for i, k in enumerate(table)))]
        qs = []
        for i, k in enumerate(table):
            qs.append((hashname + k, 1 + i))
        absent = set()
        for k in keys[n:] + [k + "0" for k in table] + [k[:-1] for k in table] + ["", "~~~~~~", "!"]:
            if k not in table:
                absent.add(k)
        for k in sorted(absent):
            qs.append((hashname + k, 0))
        for s in ["", "a", "ab", "abc", hashname[:3], "zzzz" + (table[0] if table else "q")]:
            qs.append((s, 0))
        for q, _ in qs:
            cmds.append("byname interrogate_get_wrapper_by_unique_name %s" % idb.hexs(q))
        cmds.append("echo done")
        r = idb.run_script(cmds, timeout=60)
        if r.res.abnormal or r.res.rc != 0:
            done = len([l for l in r.lines if l.startswith("R ")])
            q = qs[done][0] if done < len(qs) else "?"
            return ("uniq-crash:" + r.res.kind(), "interrogate_get_wrapper_by_unique_name(%r) with a %d-entry table %s: process died (%s) %s" % (
                q, n, table, r.res.kind(), r.res.err.decode("latin-1")[-300:]))
        res = [json.loads(l[2:]) for l in r.lines if l.startswith("R ")]
        for (q, want), got in zip(qs, res):
            if got != want:
                return ("uniq-wrong", "interrogate_get_wrapper_by_unique_name(%r) with table %s returns %r, expected %r" % (q, table, got, want))
            if want == 0 and table and min(table) < q[4:] < max(table):
                nt.add("uniq|between|%d" % n)
        classes.append("uniq.table%d" % min(n, 5))
    return None


def judge(case, ctx):
    if case.get("real"):
        return judge_real(case, ctx)
    db = dbgen.normalise_loaded(case["db"])
    data = idbfmt.serialise(case["db"])
    nt, classes = set(), []
    with run.Scratch("c20") as d:
        bad = check_db(d, data, db, nt, classes)
        if bad is None:
            bad = check_unique_names(case["keys"], case["hash"], nt, classes)
        if bad is None and case.get("db2"):
            bad = check_incremental(d, data, case["db2"], nt, classes)
    if bad:
        return Outcome(ok=False, key=bad[0], detail=bad[1], classes=classes)
    return Outcome(ok=True, nontrivial=sorted(nt), classes=classes,
                   sample={"records": {k: len(db[k]) for k in idbfmt.KINDS}, "unique_name_keys": case["keys"]})


def judge_real(case, ctx):
    with run.Scratch("c20r") as d:
        r = igate.interrogate(d, [case["header"]], opts=case["opts"])
        p = os.path.join(d, "l.in")
        if r.rc != 0 or not os.path.exists(p):
            return Outcome(discard=True)
        data = open(p, "rb").read()
        db = idbfmt.parse(data)
        nt, classes = set(), ["real"]
        bad = check_db(d, data, db, nt, classes)
    if bad:
        return Outcome(ok=False, key=bad[0], detail=bad[1] + " (database of %s %s)" % (case["header"], case["opts"]), classes=classes)
    return Outcome(ok=True, nontrivial=sorted(nt), classes=classes, sample={"header": case["header"], "opts": case["opts"]})


def worker(ctx, widx, stage, stats):
    if stage == "model":
        f = core.hypothesis_search(None, ctx, _strategy(ctx), judge, ctx.pick(25, 400), ctx.seed * 1000 + widx, stats,
                                   time_budget=ctx.pick(90, 1000))
        return [f] if f else []
    fails = []
    combos = [(h, o) for h in c12.real_headers() for o in (["-c", "-fnames", "-promiscuous"], ["-python-native"])]
    for i, (h, o) in enumerate(combos):
        if i % 4 != widx:
            continue
        case = {"real": True, "header": h, "opts": o}
        out = judge_real(case, ctx)
        if core.account(stats, out, ctx, case):
            fails.append(dict(case=case, detail=out.detail, key=out.key))
            break
    return fails
