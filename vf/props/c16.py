"""C16 -- module initialisation registers every library once, base classes first."""
import itertools
import os
import re

from hypothesis import strategies as st

from .. import build, core, igate, run
from ..core import Outcome

ID = "C16"
LEVEL = "exploration"
TECHNIQUE = "property-based testing (Hypothesis project generator: arbitrary cross-library inheritance/typedef digraphs x all command-line orders x load faults) against the model dependency graph"
RULE = ("Hypothesis generates projects of k<=5 libraries in one module; each class lives in one library and may derive from classes of other libraries (typedefs to foreign classes are generated too, "
        "but are not exported and create no dependency), giving an arbitrary library-level digraph (DAGs, cycles, isolated libraries, "
        "function-only libraries); library names are permuted so that name order and dependency order disagree. Every command-line "
        "order of the .in files is run (k<=4; 24 sampled for k=5) plus fault cases (missing, truncated, wrong-major .in). Non-trivial: a "
        "project with a cross-library edge whose source library sorts alphabetically before its target, or with a cycle; distinct by "
        "(k, edge set shape, cyclic).")
ASSUMPTIONS = ["the order is read from the generated module file: RegisterTypes calls, defs[] array and BuildInstants calls", "for cyclic graphs only edges between different strongly connected components are required to be respected"]
NONTRIVIAL_FLOOR = 8

NAMES = ["libzz", "libaa", "libmm", "libbb", "libyy", "libcc"]


def stages(ctx):
    return [("projects", 16)]


def _strategy(ctx):
    k = st.integers(2, 5)
    return k.flatmap(lambda n: st.builds(
        lambda perm, classes, fault, fo: {"k": n, "names": perm, "classes": classes, "fault": fault, "funconly": fo},
        st.permutations(NAMES).map(lambda p: list(p)[:n]),
        st.lists(st.tuples(st.integers(0, n - 1), st.lists(st.integers(0, 30), max_size=2), st.integers(0, 3)), min_size=n, max_size=3 * n),
        st.sampled_from([None, None, "missing", "truncated", "major"]), st.integers(0, n - 1)))


def project(case):
    """-> classes [(id, lib, [base ids], typedef_target|None)], edges set((from_lib, to_lib))"""
    k = case["k"]
    classes = []
    for i, (lib, bases, td) in enumerate(case["classes"]):
        if lib == case["funconly"] and i >= k:
            continue                           # keep one library poorer in classes
        bs = []
        for b in bases:
            if classes:
                c = classes[b % len(classes)]
                if c["id"] not in bs:
                    bs.append(c["id"])
        tdt = None
        if td == 0 and classes:
            tdt = classes[(i * 7 + 3) % len(classes)]["id"]
        classes.append({"id": i, "lib": lib, "bases": bs, "td": tdt})
    edges = set()
    by_id = {c["id"]: c for c in classes}
    for c in classes:
        for b in c["bases"]:
            if by_id[b]["lib"] != c["lib"]:
                edges.add((c["lib"], by_id[b]["lib"]))
        # a typedef to a class of ANOTHER library is not exported at all (scan_typedef_type requires a local
        # target), so it creates no dependency; such typedefs are still generated as noise
    return classes, edges


def sccs(n, edges):
    reach = {i: {i} for i in range(n)}
    changed = True
    while changed:
        changed = False
        for a, b in edges:
            new = reach[b] - reach[a]
            if new:
                reach[a] |= new
                changed = True
    comp = {}
    for i in range(n):
        comp[i] = frozenset(j for j in range(n) if j in reach[i] and i in reach[j])
    return comp


def judge(case, ctx):
    k = case["k"]
    names = case["names"]
    classes, edges = project(case)
    libs_with_content = sorted({c["lib"] for c in classes} | set(range(k)))
    by_id = {c["id"]: c for c in classes}
    with run.Scratch("c16") as d:
        hdr = os.path.join(d, "hdr")
        for c in classes:
            lines = ["#ifndef CLS_%d_H" % c["id"], "#define CLS_%d_H" % c["id"], "#include <verif_prelude.h>"]
            for b in c["bases"]:
                lines.append('#include "cls_%d.h"' % b)
            if c["td"] is not None:
                lines.append('#include "cls_%d.h"' % c["td"])
            bases = (" : " + ", ".join("public K%d" % b for b in c["bases"])) if c["bases"] else ""
            lines.append("class K%d%s {\nPUBLISHED:\n  K%d();\n  int m%d_get() const;\n};" % (c["id"], bases, c["id"], c["id"]))
            if c["td"] is not None:
                lines.append("BEGIN_PUBLISH\ntypedef K%d Td%d;\nEND_PUBLISH" % (c["td"], c["id"]))
            lines.append("#endif")
            run.write(os.path.join(hdr, "cls_%d.h" % c["id"]), "\n".join(lines) + "\n")
        for lib in range(k):
            run.write(os.path.join(hdr, "fn_%d.h" % lib), "#include <verif_prelude.h>\nBEGIN_PUBLISH\nint fn_lib%d(int a);\nEND_PUBLISH\n" % lib)
        ins = []
        for lib in range(k):
            files = ["hdr/fn_%d.h" % lib] + ["hdr/cls_%d.h" % c["id"] for c in classes if c["lib"] == lib]
            r = igate.interrogate(d, files, opts=["-python-native", "-string"], module="m", library=names[lib],
                                  oc="%s_igate.cxx" % names[lib], od="%s.in" % names[lib], extra_search=["-Ihdr"])
            if r.abnormal or r.rc != 0:
                return Outcome(ok=False, key="igate:" + r.kind(), detail="interrogate failed for %s: %s" % (names[lib], r.err.decode("latin-1")[-400:]))
            ins.append("%s.in" % names[lib])
        comp = sccs(k, edges)
        cyclic = any(len(c) > 1 for c in comp.values())
        orders = list(itertools.permutations(range(k)))
        if len(orders) > 24:
            step = len(orders) // 24
            orders = orders[::step][:24]
        if not ctx.thorough and len(orders) > 8:
            orders = orders[::max(1, len(orders) // 8)][:8]
        for order in orders:
            out = os.path.join(d, "mod.cxx")
            if os.path.exists(out):
                os.unlink(out)
            r = igate.interrogate_module(d, [ins[i] for i in order], oc="mod.cxx", timeout=10)
            if r.timed_out:
                return Outcome(ok=False, key="hang", detail="interrogate_module does not terminate within 10s for order %s, edges %s" % (order, sorted(edges)))
            if r.abnormal or r.rc != 0:
                return Outcome(ok=False, key="module:" + r.kind(), detail="interrogate_module failed (%s) order %s: %s" % (r.kind(), order, r.err.decode("latin-1")[-400:]))
            txt = open(out).read()
            m0 = re.search(r"^PyObject \*PyInit_\w+\(\) \{", txt, re.M)
            if not m0:
                return Outcome(ok=False, key="no-init", detail="the module file has no PyInit function")
            body = txt[m0.start():]
            body = body[:body.index("#else")]
            reg = re.findall(r"Dtool_(\w+)_RegisterTypes\(\);", body)
            inst = re.findall(r"Dtool_(\w+)_BuildInstants\(module\);", body)
            defs = re.findall(r"&(\w+)_moddef", body)
            want = sorted(names[i] for i in range(k))
            for what, seq in (("RegisterTypes", reg), ("defs[]", defs), ("BuildInstants", inst)):
                if sorted(seq) != want:
                    return Outcome(ok=False, key="once-each", detail="%s lists %s; the module consists of %s (order of .in files %s)" % (
                        what, seq, want, [names[i] for i in order]))
                pos = {nm: i for i, nm in enumerate(seq)}
                for a, b in edges:
                    if comp[a] != comp[b] and pos[names[a]] < pos[names[b]]:
                        return Outcome(ok=False, key="order", detail="%s initialises %s before %s although %s has classes deriving from / typedef'd to classes of %s; sequence %s, edges %s, .in order %s" % (
                            what, names[a], names[b], names[a], names[b], seq, sorted((names[x], names[y]) for x, y in edges), [names[i] for i in order]))
            if cyclic and b"ircular" not in r.err:
                return Outcome(ok=False, key="cycle-silent", detail="a dependency cycle among %s was not reported" % sorted((names[x], names[y]) for x, y in edges))
        # fault cases
        if case["fault"]:
            victim = ins[case["funconly"] % k]
            data = open(os.path.join(d, victim), "rb").read()
            if case["fault"] == "missing":
                os.unlink(os.path.join(d, victim))
            elif case["fault"] == "truncated":
                run.write(os.path.join(d, victim), data[:max(10, len(data) // 2)])
            else:
                lines = data.split(b"\n", 2)
                run.write(os.path.join(d, victim), lines[0] + b"\n4 0\n" + lines[2])
            out = os.path.join(d, "mod.cxx")
            if os.path.exists(out):
                os.unlink(out)
            r = igate.interrogate_module(d, ins, oc="mod.cxx", timeout=10)
            if r.abnormal:
                return Outcome(ok=False, key="fault-crash", detail="interrogate_module died (%s) with a %s database" % (r.kind(), case["fault"]))
            if r.rc == 0:
                return Outcome(ok=False, key="fault-status", detail="a %s database (%s) is accepted with exit status 0" % (case["fault"], victim))
            if os.path.exists(out):
                return Outcome(ok=False, key="fault-output", detail="a %s database (%s): exit status %d but the output file is left behind" % (case["fault"], victim, r.rc))
    nt = []
    if cyclic or any(names[a] < names[b] for a, b in edges):
        nt.append("%d|%s|%s" % (k, sorted(edges), cyclic))
    classes_ = ["k%d" % k, "cyclic" if cyclic else "acyclic", "edges%d" % min(len(edges), 6)] + (["fault." + case["fault"]] if case["fault"] else [])
    return Outcome(ok=True, nontrivial=nt, classes=classes_,
                   sample={"libraries": names, "edges": sorted((names[a], names[b]) for a, b in edges), "cyclic": cyclic, "orders": len(orders)})


def worker(ctx, widx, stage, stats):
    f = core.hypothesis_search(None, ctx, _strategy(ctx), judge, ctx.pick(250, 2500), ctx.seed * 1000 + widx, stats,
                               time_budget=ctx.pick(100, 1000))
    return [f] if f else []
