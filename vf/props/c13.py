"""C13 -- loading several libraries yields one consistent, order-independent database.

Reference: the union of the single-file dumps (each file loaded alone by the same library -- the
single-file behaviour is C12's business), with types of equal true name identified according to the
statement's rule; compared after canonical renaming of indices (every record carries a unique token)."""
import itertools
import json
import os
import re

from hypothesis import strategies as st

from .. import core, dbgen, idb, idbfmt, ifacegen, run
from ..core import Outcome

ID = "C13"
LEVEL = "exploration"
TECHNIQUE = "model-based testing of load histories (Hypothesis projects x all load permutations x interleaved queries) against a union/merge reference model up to canonical renaming"
RULE = ("Hypothesis generates projects of k<=4 model databases that share types by true name (fully defined in one, forward declared in "
        "others, conflicting definitions, global/non-global variants); every load-order permutation (k<=3 quick, k<=4 thorough) is run "
        "in its own process with by-name lookups and counts interleaved between requests and both request styles. Non-trivial: a history "
        "with >=2 files sharing >=1 type where the defining file is not loaded first and >=1 query between loads; distinct by "
        "(k, sharing pattern, permutation, request styles).")
ASSUMPTIONS = ["single-file loading is correct (C12); the reference model is the union of single-file dumps produced by the same library",
               "when several files fully define the same true name the statement names no winner: either complete definition is accepted, a mixture is not",
               "records are recognised by unique tokens the generator plants in comment/definition fields"]
NONTRIVIAL_FLOOR = 10

KIND_LETTERS = {"functions": "f", "wrappers": "w", "types": "t", "manifests": "m", "elements": "e", "make_seqs": "s"}
TOKEN_FN = {"t": "interrogate_type_comment", "f": "interrogate_function_comment", "w": "interrogate_wrapper_comment",
            "e": "interrogate_element_comment", "s": "interrogate_make_seq_comment", "m": "interrogate_manifest_definition"}
SHARED = ["Shared0", "Shared1", "Shared2"]


def stages(ctx):
    return [("projects", 16)]


def _strategy(ctx):
    k = st.integers(2, ctx.pick(3, 4))
    return k.flatmap(lambda n: st.builds(
        lambda dbs, styles, qs: {"dbs": dbs, "styles": styles, "queries": qs},
        st.lists(dbgen.model_dbs(max_each=3, shared_types=SHARED), min_size=n, max_size=n),
        st.lists(st.sampled_from(["req", "reqmod"]), min_size=n, max_size=n),
        st.lists(st.integers(0, 5), min_size=n, max_size=n)))


def prepare(case):
    """unique tokens / names, distinct library names; returns list of dbs"""
    dbs = []
    for i, db in enumerate(case["dbs"]):
        db = json.loads(json.dumps(db))
        db["library_name"] = "lib%d" % i
        for kind, letter in KIND_LETTERS.items():
            for n, r in enumerate(db[kind]):
                tok = "U%d%s%d" % (i, letter, n)
                if kind == "manifests":
                    r["definition"] = tok
                else:
                    r["comment"] = tok
                if kind == "types":
                    if r["true_name"] in SHARED:
                        r["name"] = r["true_name"]
                    else:
                        r["true_name"] = "T_%s" % tok
                        r["name"] = "N_%s" % tok
                        r["scoped_name"] = "S_%s" % tok
                elif kind in ("elements", "manifests"):
                    r["name"] = "N_%s" % tok
                    r["scoped_name"] = "S_%s" % tok
        dbs.append(db)
    return dbs


_IDX_FNS = None


def idx_fns():
    """function name -> kind letter of the index it returns (for index-valued results)"""
    global _IDX_FNS
    if _IDX_FNS is None:
        _IDX_FNS = {f["name"]: f["rk"].lower() for f in ifacegen.classify(ifacegen.parse_header()) if f.get("rk", "").isupper()}
    return _IDX_FNS


def canon(dump):
    """-> (records by token, problems)  every index replaced by the token of its referent"""
    tok = {}
    for (kind, idx), rec in dump["rec"].items():
        tok[(kind, idx)] = rec.get(TOKEN_FN[kind], "")
    IF = idx_fns()
    out = {}
    for (kind, idx), rec in dump["rec"].items():
        c = {}
        for fn, v in rec.items():
            k = IF.get(fn)
            if k:
                if isinstance(v, list):
                    c[fn] = [tok.get((k, x), "?%d" % x) if x else 0 for x in v]
                else:
                    c[fn] = tok.get((k, v), "?%d" % v) if v else 0
            else:
                c[fn] = v
        out[tok[(kind, idx)]] = c
    enums = {fn: sorted(tok.get((IF[fn], x), "?%d" % x) for x in v) for fn, v in dump["enum"].items()}
    return out, enums, tok


def single_dump(d, path):
    r = idb.run_script(["req " + path, "dump"], timeout=60)
    if r.crashed:
        return None
    ds = idb.dumps_in(r.lines)
    return ds[0] if ds else None


def judge(case, ctx):
    dbs = prepare(case)
    k = len(dbs)
    with run.Scratch("c13") as d:
        paths, singles = [], []
        for i, db in enumerate(dbs):
            p = os.path.join(d, "f%d.in" % i)
            run.write(p, idbfmt.serialise(db))
            paths.append(p)
            sd = single_dump(d, p)
            if sd is None:
                return Outcome(ok=False, key="single-load-crash", detail="loading file %d alone fails" % i)
            singles.append(canon(sd))
        # which true names are shared, and by whom
        owners = {}
        for i, db in enumerate(dbs):
            for t in db["types"]:
                if t["true_name"] in SHARED and t["name"]:
                    owners.setdefault(t["true_name"], []).append((i, t["comment"], bool(t["flags"] & idbfmt.TF["fully_defined"]),
                                                                 bool(t["flags"] & idbfmt.TF["global_"])))
        shared = {tn: o for tn, o in owners.items() if len(o) >= 2}
        perms = list(itertools.permutations(range(k)))
        results = []
        for perm in perms:
            cmds = []
            expect_lookup = []
            loaded = []
            for pos, i in enumerate(perm):
                n_rec = sum(len(dbs[i][kk]) for kk in idbfmt.KINDS)
                if case["styles"][i] == "reqmod" and n_rec > 0:
                    cmds.append("reqmod %s %d lib%d 1 %d" % (paths[i], dbs[i]["file_identifier"], i, 1 + n_rec))
                else:
                    cmds.append("req " + paths[i])
                loaded.append(i)
                q = case["queries"][i]
                if q:
                    # names of every file loaded so far must be found, names of files not yet requested must not
                    # (every by-name table has its own freshness bit: each is queried, for every kind of record that has one)
                    for j in range(k):
                        for t in dbs[j]["types"][:2]:
                            if t["true_name"] in SHARED or not t["name"]:
                                continue
                            for fn, fld in (("interrogate_get_type_by_name", "name"), ("interrogate_get_type_by_scoped_name", "scoped_name"),
                                            ("interrogate_get_type_by_true_name", "true_name"))[:1 + (q + pos) % 3]:
                                cmds.append("byname %s %s" % (fn, idb.hexs(t[fld])))
                                expect_lookup.append((t[fld], j in loaded, pos, "t", t["comment"]))
                        for e in dbs[j]["elements"][:2]:
                            for fn, fld in (("interrogate_get_element_by_name", "name"), ("interrogate_get_element_by_scoped_name", "scoped_name"))[(q + pos) % 2:]:
                                cmds.append("byname %s %s" % (fn, idb.hexs(e[fld])))
                                expect_lookup.append((e[fld], j in loaded, pos, "e", e["comment"]))
                        for m in dbs[j]["manifests"][:2]:
                            cmds.append("byname interrogate_get_manifest_by_name %s" % idb.hexs(m["name"]))
                            expect_lookup.append((m["name"], j in loaded, pos, "m", m["definition"]))
                    if q >= 3:
                        cmds.append("call interrogate_number_of_types")
                        expect_lookup.append(("#types", None, pos, None, None))
            cmds += ["dump", "flag"]
            r = idb.run_script(cmds, timeout=120)
            if r.crashed:
                return Outcome(ok=False, key="crash:" + r.res.kind(),
                               detail="load order %s: process died (%s): %s" % (perm, r.res.kind(), r.res.err.decode("latin-1")[-500:]))
            if "FLAG 0" not in r.lines:
                return Outcome(ok=False, key="flag", detail="load order %s raises the error flag: %s" % (perm, r.res.err.decode("latin-1")[-300:]))
            res = [json.loads(l[2:]) for l in r.lines if l.startswith("R ")]
            dump = idb.dumps_in(r.lines)[0]
            toks = {(kind, idx): rec.get(TOKEN_FN[kind], "") for (kind, idx), rec in dump["rec"].items()}
            for (nm, want, pos, letter, token), got in zip(expect_lookup, res):
                if want is True and got == 0:
                    return Outcome(ok=False, key="lookup-stale", detail="load order %s: after request %d a by-name lookup of %r (already loaded) returns 0" % (perm, pos, nm))
                if want is False and got != 0:
                    return Outcome(ok=False, key="lookup-early", detail="load order %s: lookup of %r succeeds before its file was requested" % (perm, nm))
                if want is True and (letter, got) in toks and toks[(letter, got)] != token:      # (the dump lists what enumeration reaches)
                    return Outcome(ok=False, key="lookup-wrong-record", detail="load order %s: after request %d the lookup of %r returns index %d, which is record %r, not %r" % (
                        perm, pos, nm, got, toks.get((letter, got)), token))
            bad = compare(dump, singles, dbs, shared, perm)
            if bad:
                return Outcome(ok=False, key=bad[0], detail="load order %s (styles %s): %s" % (perm, case["styles"], bad[1]))
            results.append(perm)
    classes = ["k%d" % k, "shared%d" % len(shared)] + ["style." + s for s in case["styles"]]
    nt = []
    for perm in perms:
        for tn, o in shared.items():
            definers = [i for i, _, fd, _ in o if fd]
            if definers and perm[0] not in definers and any(case["queries"]):
                nt.append("%d|%s|%s|%s" % (k, sorted((tn, len(o)) for tn, o in shared.items()), perm, case["styles"]))
                break
    return Outcome(ok=True, nontrivial=nt, classes=classes,
                   sample={"k": k, "shared": {tn: [(i, fd, gl) for i, _, fd, gl in o] for tn, o in shared.items()},
                           "permutations": len(perms), "styles": case["styles"]})


def compare(dump, singles, dbs, shared, perm):
    recs, enums, tok = canon(dump)
    # decide winners of shared types from what survived, check admissibility
    alias = {}           # token of a merged-away type -> token of the survivor
    for tn, o in shared.items():
        toks = [t for _, t, _, _ in o]
        alive = [t for t in toks if t in recs]
        if len(alive) != 1:
            return ("merge-identify", "types with true name %s: %d records survive the merge (tokens %s), expected exactly one" % (tn, len(alive), alive))
        w = alive[0]
        fds = [t for _, t, fd, _ in o if fd]
        if fds and w not in fds:
            return ("merge-winner", "true name %s: the surviving definition %s is not a fully defined one (fully defined: %s)" % (tn, w, fds))
        for t in toks:
            if t != w:
                alias[t] = w
        any_global = any(gl for _, _, _, gl in o)
        if recs[w].get("interrogate_type_is_global") != any_global:
            return ("merge-global", "true name %s: is_global=%r after the merge, union of the files is %r" % (tn, recs[w].get("interrogate_type_is_global"), any_global))
    # index ranges: contiguous per module, in load order
    by_file = {}
    for (kind, idx), t in tok.items():
        m = re.match(r"U(\d+)[a-z]\d+$", t)
        if m and t not in alias.values():       # a merged type keeps the slot of whichever file was loaded first
            by_file.setdefault(int(m.group(1)), []).append(idx)
    order = sorted(by_file, key=lambda i: min(by_file[i]))      # ranges must be disjoint; their order is not specified
    prev_hi = 0
    for i in order:
        lo, hi = min(by_file[i]), max(by_file[i])
        if lo <= prev_hi:
            return ("index-ranges", "records of lib%d occupy [%d,%d] which overlaps the range of another library (ends at %d)" % (i, lo, hi, prev_hi))
        n_rec = sum(len(dbs[i][kk]) for kk in idbfmt.KINDS)
        if hi - lo + 1 > n_rec:
            return ("index-ranges", "records of lib%d span %d indices but the file has %d records" % (i, hi - lo + 1, n_rec))
        prev_hi = hi
    # expected records
    exp = {}
    for i, (srecs, senums, stok) in enumerate(singles):
        for t, rec in srecs.items():
            if t in alias:
                continue
            exp[t] = rec
    # only records reachable through the query interface are observable: a record listed solely by the
    # losing copy of a merged type is legitimately out of reach after the merge
    IF0 = idx_fns()
    roots = set()
    for srecs, senums, stok in singles:
        for fn, vals in senums.items():
            roots.update(alias.get(x, x) for x in vals)
    reach, todo = set(), [t for t in roots if t in exp]
    while todo:
        t = todo.pop()
        if t in reach:
            continue
        reach.add(t)
        for fn, v in exp[t].items():
            if fn in IF0:
                for x in (v if isinstance(v, list) else [v]):
                    x = alias.get(x, x)
                    if isinstance(x, str) and x in exp and x not in reach:
                        todo.append(x)
    exp = {t: r for t, r in exp.items() if t in reach}
    if set(exp) != set(recs):
        missing = sorted(set(exp) - set(recs))[:5]
        extra = sorted(set(recs) - set(exp))[:5]
        return ("merge-union", "record set differs from the union of the files: missing %s, unexpected %s" % (missing, extra))

    def ren(v):
        if isinstance(v, list):
            return [alias.get(x, x) for x in v]
        return alias.get(v, v) if isinstance(v, str) else v
    IF = idx_fns()
    for t, rec in exp.items():
        got = recs[t]
        for fn, v in rec.items():
            if fn == "interrogate_type_is_global" and t in alias.values():
                continue
            want = ren(v) if fn in IF else v
            if got.get(fn) != want:
                return ("merge-ref" if fn in IF else "merge-field",
                        "%s of record %s is %r after the merge, %r when its file is loaded alone%s" % (
                            fn, t, got.get(fn), v, " (shared types renamed: %s)" % alias if fn in IF and alias else ""))
    # enumerations reflect all files
    for fn, vals in enums.items():
        want = []
        for srecs, senums, stok in singles:
            want += [alias.get(x, x) for x in senums.get(fn, [])]
        if fn == "interrogate_get_global_type":
            want = [t for t in set(want) | set(alias.values()) if recs.get(t, {}).get("interrogate_type_is_global")]
        if sorted(set(want)) != sorted(set(vals)):
            return ("merge-enum", "%s enumerates %s, union of the files is %s" % (fn, sorted(set(vals))[:8], sorted(set(want))[:8]))
        if len(vals) != len(set(vals)):
            return ("merge-enum-dup", "%s lists an entry twice: %s" % (fn, vals[:10]))
    return None


def worker(ctx, widx, stage, stats):
    f = core.hypothesis_search(None, ctx, _strategy(ctx), judge, ctx.pick(120, 1500), ctx.seed * 1000 + widx, stats,
                               time_budget=ctx.pick(100, 1200))
    return [f] if f else []
