"""C08 -- macro expansion yields the token sequence a conforming preprocessor yields.
Differential against gcc -E on generated macro programs; tokens compared by value."""
import os
import re

from .. import core, ctok, igate, macrogen, run
from ..core import Outcome

ID = "C08"
LEVEL = "exploration"
TECHNIQUE = "property-based differential testing (Hypothesis) of parse_file -E against gcc -E on generated macro programs"
RULE = ("Hypothesis generates macro programs (object-/function-like, variadic, #, ##, __VA_OPT__, self/mutual reference, "
        "nested and multi-line invocations, empty arguments, #undef/redefinition, push_macro/pop_macro, -D). Programs gcc "
        "rejects are discarded. Non-trivial: a function-like macro invoked with an argument that contains a macro, or use "
        "of #/##/__VA_OPT__, or a self/nested reference; distinct by the feature-tag set of the program.")
ASSUMPTIONS = ["gcc 12 -E -P -undef -x c++ -std=c++2b is the conforming preprocessor",
               "tokens compared by (kind, value): integer literals by value, strings/chars by decoded content, adjacent string literals concatenated",
               "-DNAME without '=' is not generated (its meaning is a driver convention, not part of the language)"]
NONTRIVIAL_FLOOR = 20

_UDL = re.compile(r'''(?:"(?:[^"\\\n]|\\.)*"|'(?:[^'\\\n]|\\.)*')[A-Za-z_]''')
GCC = ["gcc", "-E", "-P", "-undef", "-x", "c++", "-std=c++2b", "-w"]


def stages(ctx):
    return [("random", 16)]


def gcc_tokens(d, dopts):
    r = run.run(GCC + dopts + ["prog.c"], cwd=d, timeout=20)
    if r.rc != 0:
        return None
    txt = "\n".join(l for l in r.out.decode("latin-1").split("\n") if not l.lstrip().startswith("#"))
    if _UDL.search(txt):
        return None        # a paste produced a user-defined-literal token: outside the feature grammar
    try:
        return ctok.normalise(ctok.tokens(txt))
    except ctok.LexError:
        return None


def _nows(b):
    return bytes(c for c in b if c not in b" \t")


def judge(case, ctx):
    off = frozenset(ctx.disabled_tags)
    src, dopts, tags = macrogen.render(case, off)
    with run.Scratch("c08") as d:
        run.write(os.path.join(d, "prog.c"), src)
        exp = gcc_tokens(d, dopts)
        if exp is None:
            return Outcome(discard=True)
        if any(k == "num" and isinstance(v, str) for k, v in exp) or any(k == "other" for k, v in exp):
            return Outcome(discard=True)       # ill-formed pp-numbers / stray characters: outside the domain
        r = igate.parse_file(d, ["prog.c"], opts=["-E"] + dopts, std=False, timeout=20)
    classes = sorted(tags)
    sample = {"program": src.split("\n")[:12], "D": dopts}
    if r.abnormal:
        return Outcome(ok=False, key="crash:" + r.kind(), classes=classes,
                       detail="parse_file -E ended with %s\n%s\n--- program:\n%s" % (r.kind(), r.err.decode("latin-1")[-300:], src))
    if r.rc != 0:
        return Outcome(ok=False, key="rejected", classes=classes,
                       detail="parse_file -E rejected a program gcc accepts (rc=%d): %s\n--- program:\n%s" % (
                           r.rc, r.err.decode("latin-1")[-400:], src))
    try:
        got = ctok.normalise(ctok.tokens(r.out))
    except ctok.LexError as e:
        return Outcome(ok=False, key="unlexable-output", classes=classes,
                       detail="parse_file -E output cannot be lexed (%s)\n%s\n--- program:\n%s" % (e, r.out[-300:], src))
    if got != exp:
        i = 0
        while i < min(len(got), len(exp)) and got[i] == exp[i]:
            i += 1
        key = "tokens:" + ",".join(t for t in classes if t not in ("pp.objlike", "pp.funclike"))
        if "pp.stringify" in tags and len(got) == len(exp) and all(
                a == b or (a[0] == "str" and b[0] == "str" and _nows(a[1]) == _nows(b[1])) for a, b in zip(got, exp)):
            key = "stringify-whitespace"
        return Outcome(ok=False, key=key, classes=classes,
                       detail="token sequences differ at token %d\n  gcc:        %s\n  parse_file: %s\n--- program (%s):\n%s" % (
                           i, ctok.show(exp[max(0, i - 6):i + 10]), ctok.show(got[max(0, i - 6):i + 10]), " ".join(dopts), src))
    nt = []
    if tags & {"pp.macro_in_arg", "pp.stringify", "pp.paste", "pp.va_opt", "pp.selfref.fn", "pp.selfref.obj", "pp.nested_ref"}:
        nt = [",".join(classes)]
    return Outcome(ok=True, nontrivial=nt, classes=classes, sample=sample)


def worker(ctx, widx, stage, stats):
    per = ctx.pick(1000, 12000)
    f = core.hypothesis_search(None, ctx, macrogen.programs(), judge, per, ctx.seed * 1000 + widx, stats,
                               time_budget=ctx.pick(90, 1200))
    return [f] if f else []
