"""C03 -- successful runs yield compilable, linkable code with unique wrapper symbols.
Generated library (with a full instrumented implementation) x option lattice -> interrogate -> g++ -> interrogate_module
-> g++ -> link -> dlopen/import.  The compiler, the linker and the dynamic loader are the oracle."""
import itertools
import os
import re

from hypothesis import strategies as st

from .. import aux, bindgen, build, core, hgen, idbfmt, igate, run
from ..core import Outcome

ID = "C03"
LEVEL = "exploration"
TECHNIQUE = ("property-based testing (Hypothesis library generator x generated option sets, planted signature-hash collisions) with g++, ld and "
             "dlopen/import as the oracle; symbol tables (nm) and the database give the uniqueness check")
RULE = ("Hypothesis generates class libraries (hgen, every declared entity has a definition) x back-end {-c,-python,-python-native} x "
        "{-fnames,-fptrs,both,none} x {-string,-true-names,-unique-names,-nodb,-do-module,-promiscuous,-nomangle,-assert} x {1,2} libraries "
        "per module x 0..6 functions whose signatures collide in both 24-bit hashes. When interrogate exits 0 its code file is compiled "
        "against the original headers, the interrogate_module output is compiled, everything is linked with the library's implementation "
        "and loaded (ctypes for -c, import for the Python back-ends); wrapper names and unique names in the database must be distinct "
        "valid identifiers and, with -fnames, exported by the shared object. Non-trivial: a case that went through link+load with at "
        "least one class and one non-default option; distinct by (back-end, option set, feature classes of the library).")
ASSUMPTIONS = ["generated code is compiled with g++ 12 -std=gnu++17 against shim pnotify.h/register_type.h/dconfig.h standing in for the Panda3D runtime",
               "-true-names is only combined with libraries without overloads or default arguments (documented limitation of the option)",
               "-refcount, -track-interpreter, -spam, -python-obj depend on the Panda3D runtime or are not maintained back-ends: not part of the lattice"]
NONTRIVIAL_FLOOR = 8

BACKENDS = ["-c", "-python", "-python-native"]
FLAGS = ["-string", "-true-names", "-unique-names", "-nodb", "-do-module", "-promiscuous", "-nomangle", "-assert"]


def stages(ctx):
    return [("libs", 16)]


def _strategy(ctx):
    flags = st.lists(st.sampled_from(FLAGS), max_size=4, unique=True)
    return st.builds(lambda raw, be, naming, fl, two, col: {"raw": raw, "backend": be, "naming": naming, "flags": sorted(fl), "two": two, "collide": col},
                     hgen.raw_libraries(max_classes=4, max_funcs=4), st.sampled_from(BACKENDS), st.integers(0, 3), flags, st.booleans(),
                     st.sampled_from([0, 0, 2, 3, 6]))


def collision_names(k):
    """k function names whose signatures 'name(int)' collide under hash_string(.,5) and hash_string(.,11): the same
    multiset of characters at positions that are congruent modulo 24"""
    out = []
    for perm in itertools.permutations("QRS"):
        out.append("hcz" + perm[0] + "f" * 23 + perm[1] + "g" * 23 + perm[2] + "w")
    return out[:k]


def hash_string(name, shift_offset):
    h = 0
    shift = 0
    for ch in name.encode("latin-1"):
        sc = (ch << shift) & 0xffffff
        if shift > 16:
            sc |= (ch >> (24 - shift)) & 0xff
        h = (h + sc) & 0xffffff
        shift = (shift + shift_offset) % 24
    prod = h * 4999
    return (prod ^ (prod >> 24)) & 0xffffff


L2_H = """#ifndef L2_H
#define L2_H
#include <verif_prelude.h>
class Zed {
PUBLISHED:
  Zed() {}
  int zed_get(int a = 3) const { return a; }
  static int zed_count() { return 7; }
  enum ZedKind { zk_a, zk_b = 5 };
};
BEGIN_PUBLISH
inline int zed_free(int a, double b = 0.5) { return a + (int)b; }
END_PUBLISH
#endif
"""

class _Literal:
    """a hand-written library (replays of minimised findings): header text + implementation text"""

    def __init__(self, lit):
        self.files = {"l.h": "#ifndef L_H\n#define L_H\n#include <verif_prelude.h>\n#include <string>\n" + lit["h"] + "\n#endif\n"}
        self.main = "l.h"
        self.cmd_headers = ["l.h"]
        self.search = []
        self.gxx_inc = ["-I", "."]
        self.classes = [1] if "class" in lit["h"] or "struct" in lit["h"] else []
        self.features = set()
        self.impl_text = '#include "l.h"\n' + lit.get("impl", "")


IDENT = re.compile(r"^[A-Za-z_][A-Za-z0-9_]*$")


def judge(case, ctx):
    be = case["backend"]
    flags = list(case["flags"])
    naming = {0: [], 1: ["-fnames"], 2: ["-fptrs"], 3: ["-fnames", "-fptrs"]}[case["naming"]]
    avoid = set(ctx.disabled_tags)
    opts = {"impl": True, "avoid": avoid}
    avoided = []
    if "-true-names" in flags:
        opts["no_overloads"] = True
    if case.get("literal"):
        lib = _Literal(case["literal"])
    else:
        if be == "-python-native" and "pn.namespace_class" in avoid and case["raw"].get("ns"):
            opts["no_namespace"] = True
            avoided.append("avoided.pn.namespace_class")
        raw_ = hgen.with_member_defaults(hgen.with_arith_family(case["raw"])) if "-true-names" not in flags else case["raw"]
        lib = hgen.build(raw_, opts)
        if avoid and (hgen.build(raw_, dict(opts, avoid=())).features - lib.features):
            avoided += ["avoided." + t for t in sorted(hgen.build(raw_, dict(opts, avoid=())).features - lib.features)]
    names = collision_names(case["collide"]) if "-true-names" not in flags or case["collide"] <= 1 else collision_names(case["collide"])
    extra_h = extra_i = ""
    if names:
        extra_h = "BEGIN_PUBLISH\n" + "".join("int %s(int a0);\n" % n for n in names) + "END_PUBLISH\n"
        extra_i = "".join("int %s(int a0) { return a0 + %d; }\n" % (n, i) for i, n in enumerate(names))
        assert len({hash_string(n + "(int)", 5) for n in names}) == 1 and len({hash_string(n + "(int)", 11) for n in names}) == 1
    if not case.get("literal") and "-true-names" not in flags and case["collide"] != 3:
        # a class template exported through typedef'd instantiations (default template arguments, static member, pointer to itself)
        extra_h = hgen.TEMPLATE_HEADER + extra_h
        extra_i = hgen.TEMPLATE_IMPL + extra_i
        classes_tmpl = ["template-instantiations"]
    else:
        classes_tmpl = []
    classes = avoided + classes_tmpl + ["be." + be, "naming.%d" % case["naming"]] + ["opt." + f for f in flags] + (["two-libs"] if case["two"] else []) + (["collide.%d" % len(names)] if names else [])
    nodb = "-nodb" in flags
    do_module = "-do-module" in flags
    python = be != "-c"
    with run.Scratch("c03") as d:
        bindgen.write_lib(d, lib, extra_h, extra_i)
        libs = [("l", lib.cmd_headers, lib.search)]
        if case["two"] and not do_module:
            run.write(os.path.join(d, "l2.h"), L2_H)
            libs.append(("l2", ["l2.h"], []))
        objs = []
        codes = []
        ins = []
        dbs = []
        for name, headers, search in libs:
            oc, od = "%s_igate.cxx" % name, "%s.in" % name
            r = igate.interrogate(d, headers, opts=[be] + naming + flags, module="m", library=name, oc=oc, od=None if nodb else od, extra_search=search)
            if r.signal or r.timed_out:
                return Outcome(ok=False, key="interrogate-died:%s" % r.kind(), classes=classes, detail="interrogate %s: %s" % (r.kind(), r.err[-400:].decode("latin-1")))
            if r.rc != 0:
                return Outcome(ok=True, classes=classes + ["interrogate.rejected"], sample=None)
            if not os.path.exists(os.path.join(d, oc)):
                return Outcome(ok=False, key="no-code-file", classes=classes, detail="interrogate exits 0 without writing %s" % oc)
            c = bindgen.cc(d, oc, name + "_igate.o", lib=lib, python=True)
            if c.rc != 0:
                errs = bindgen.first_errors(c.err.decode("latin-1"))
                return Outcome(ok=False, key="compile:%s:%s" % (be, errs[0] if errs else "?"), classes=classes,
                               detail="g++ rejects the %s code file of library %s (options %s):\n%s" % (be, name, " ".join(naming + flags), _errlines(c.err)))
            objs.append(name + "_igate.o")
            codes.append(open(os.path.join(d, oc), encoding="latin-1").read())
            if not nodb:
                ins.append(od)
                dbs.append(igate.load_db(os.path.join(d, od)))
        # --- symbols and unique names
        wnames = []
        callable_names = []
        unames = []
        for db in dbs:
            for w in db["wrappers"]:
                if w["name"]:
                    wnames.append(w["name"])
                    if w["flags"] & idbfmt.WF["callable_by_name"]:
                        callable_names.append(w["name"])
                if w["unique_name"]:
                    unames.append(w["unique_name"])
        for kind, lst in (("wrapper name", wnames), ("unique name", unames)):
            dup = sorted({n for n in lst if lst.count(n) > 1})
            if dup:
                return Outcome(ok=False, key="duplicate-%s" % kind.replace(" ", "-"), classes=classes, detail="%s %r occurs %d times in the database" % (kind, dup[0], lst.count(dup[0])))
            bad = [n for n in lst if not IDENT.match(n)]
            if bad and kind == "wrapper name":
                return Outcome(ok=False, key="invalid-identifier", classes=classes, detail="%s %r is not an identifier" % (kind, bad[0]))
        # --- module
        mod_name = "m"
        if not do_module and not nodb:
            r = igate.interrogate_module(d, ins, opts=[be] if python else [], module="m", library="m")
            if r.rc != 0 or r.signal:
                return Outcome(ok=False, key="module-failed:%s" % be, classes=classes, detail="interrogate_module fails (%s): %s" % (r.kind(), r.err[-400:].decode("latin-1")))
            c = bindgen.cc(d, "m_module.cxx", "m_module.o", lib=lib, python=True)
            if c.rc != 0:
                errs = bindgen.first_errors(c.err.decode("latin-1"))
                return Outcome(ok=False, key="compile-module:%s:%s" % (be, errs[0] if errs else "?"), classes=classes,
                               detail="g++ rejects the interrogate_module output for %s:\n%s" % (be, _errlines(c.err)))
            objs.append("m_module.o")
        elif do_module:
            mod_name = "m" if be == "-python-native" else "l"      # PyInit_<module> vs PyInit_<library>
        c = bindgen.cc(d, "impl_l.cxx", "impl.o", lib=lib, python=False)
        if c.rc != 0:
            raise core.Broken("generated implementation does not compile: " + _errlines(c.err))
        if be == "-python-native" and "m_module.o" not in objs:
            objs.append(aux.ensure_pyrt())        # the run-time support interrogate_module would have embedded
        so = mod_name + ".so"
        lk = bindgen.link(d, objs + ["impl.o"], so, extra=["-L" + os.path.join(build.ensure("std"), "lib"), "-linterrogatedb", "-Wl,-rpath," + os.path.join(build.ensure("std"), "lib")])
        if lk.rc != 0:
            errs = bindgen.first_errors(lk.err.decode("latin-1"))
            return Outcome(ok=False, key="link:%s:%s" % (be, errs[0] if errs else "?"), classes=classes, detail="link fails (%s %s):\n%s" % (be, " ".join(naming + flags), _errlines(lk.err)))
        # --- exported names
        if callable_names and be != "-python-native":
            dyn = {n for _, n in bindgen.defined_symbols(d, so, dynamic=True)}
            missing = [n for n in callable_names if n not in dyn]
            if missing:
                return Outcome(ok=False, key="wrapper-not-exported:%s" % be, classes=classes, detail="the database names wrapper %r but %s does not export it" % (missing[0], so))
        # --- load
        if python and (do_module or not nodb):
            code = "import sys\nsys.path.insert(0, %r)\nimport %s as mod\nprint('LOADED', len(dir(mod)))\n" % (d, mod_name)
        else:
            code = "import ctypes, os\nlibm = ctypes.CDLL(%r, mode=os.RTLD_NOW | os.RTLD_GLOBAL)\nprint('LOADED', 1)\n" % os.path.join(d, so)
        pr = bindgen.py_run(d, code)
        if pr.rc != 0 or b"LOADED" not in pr.out:
            e = pr.err.decode("latin-1")
            m = re.search(r"NameError: name '([^']+)' is not defined", e)
            if m and not any(re.search(r"^struct Dtool_PyTypedObject Dtool_%s = \{" % re.sub(r"\W+", "_", m.group(1)), code_text, re.M) for code_text in codes):
                # the module imports a base class that no library of the module exports (it lives in a system header or is
                # not published): it would have to come from another module, which this project does not have
                return Outcome(ok=True, classes=classes + ["load.unsatisfied-import"])
            m = re.search(r"(undefined symbol: \w+|\w+Error: [^\n]*)", e)
            why = re.sub(r"\d+", "N", m.group(1))[:80] if m else pr.kind()
            return Outcome(ok=False, key="load:%s:%s" % (be, why), classes=classes, detail="loading %s fails (%s %s): %s" % (so, be, " ".join(naming + flags), e[-600:]))
    nt = []
    if lib.classes and (flags or case["naming"] or case["two"] or names):
        nt.append((be, tuple(flags), case["naming"], case["two"], len(names), tuple(sorted(f for f in lib.features if f.startswith(("api.", "class.")))))[:6])
    return Outcome(ok=True, nontrivial=nt, classes=classes + ["loaded"],
                   sample={"backend": be, "options": naming + flags, "libraries": len(libs), "colliding_functions": len(names), "wrappers": len(wnames),
                           "classes": len(lib.classes), "features": sorted(lib.features)[:12]})


def _errlines(err):
    lines = [l for l in err.decode("latin-1").splitlines() if re.search(r"error|undefined reference|multiple definition", l)]
    return "\n".join(lines[:6])


def worker(ctx, widx, stage, stats):
    f = core.hypothesis_search(None, ctx, _strategy(ctx), judge, ctx.pick(40, 600), ctx.seed * 1000 + widx, stats, time_budget=ctx.pick(150, 1500))
    return [f] if f else []
