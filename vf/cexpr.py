"""Integer constant expressions: Hypothesis strategy, exact C++ evaluator, minimal-parenthesis renderer.

AST (JSON lists):
  ["lit", value>=0, base, suffix]      base in dec/oct/hex/bin; suffix in "", u, l, ul, ll, ull (+case variants)
  ["chr", code 0..255, form]           form in plain/oct/hex/simple
  ["bool", 0|1]
  ["ref", n]                           reference to an earlier named constant (resolved modulo the environment)
  ["un", op, a]                        op in - + ~ !
  ["bin", op, a, b]
  ["tern", c, a, b]
  ["cast", style, type, a]             style c|static|func ; type in CAST_TYPES
  ["par", a]                           redundant parentheses
  ["comma", a, b]                      always rendered parenthesised

Types of values: 'b' bool, 'c' char, 'i' int, 'u' unsigned, 'l' long, 'ul' unsigned long.
The evaluator implements the C++ rules and raises Invalid when the expression leaves the
property's domain: an operand (after the usual arithmetic conversions) or a result outside
int range, UB, or an ill-formed constant expression.
"""
from hypothesis import strategies as st

INT_MIN, INT_MAX = -2 ** 31, 2 ** 31 - 1


class Invalid(Exception):
    pass


BIN_OPS = ["*", "/", "%", "+", "-", "<<", ">>", "<", ">", "<=", ">=", "==", "!=", "&", "^", "|", "&&", "||"]
PREC = {"*": 12, "/": 12, "%": 12, "+": 11, "-": 11, "<<": 10, ">>": 10, "<": 8, ">": 8, "<=": 8, ">=": 8,
        "==": 7, "!=": 7, "&": 6, "^": 5, "|": 4, "&&": 3, "||": 2}
P_TERN, P_UNARY, P_PRIMARY, P_COMMA = 1, 13, 15, 0
CAST_TYPES = {"bool": ("b", 1, False), "char": ("c", 8, True), "signed char": ("c", 8, True),
              "unsigned char": ("c", 8, False), "short": ("i", 16, True), "unsigned short": ("i", 16, False),
              "int": ("i", 32, True)}
SIMPLE_ESC = {7: "\\a", 8: "\\b", 9: "\\t", 10: "\\n", 11: "\\v", 12: "\\f", 13: "\\r", 92: "\\\\", 39: "\\'",
              34: '\\"', 63: "\\?", 0: "\\0"}

BOUNDARY = [0, 1, 2, 3, 7, 8, 15, 16, 31, 32, 63, 64, 127, 128, 255, 256, 1023, 32767, 32768, 65535, 65536,
            2 ** 30 - 1, 2 ** 30, 2 ** 31 - 2, 2 ** 31 - 1]


def _rank(t):
    return {"b": 0, "c": 0, "i": 1, "u": 2, "l": 3, "ul": 4}[t]


def _promote(t):
    return "i" if t in ("b", "c") else t


def _common(t1, t2):
    t1, t2 = _promote(t1), _promote(t2)
    return t1 if _rank(t1) >= _rank(t2) else t2


def _chk(v):
    if not (INT_MIN <= v <= INT_MAX):
        raise Invalid("out of int range")
    return v


def _conv_operand(v, t, ct):
    """value v of type t converted to common type ct must stay in int range (domain rule)"""
    if ct in ("u", "ul") and v < 0:
        raise Invalid("negative operand converted to unsigned")
    return v


def lit_suffix_type(suffix, value, base):
    s = suffix.lower()
    if s == "":
        return "i"
    if s == "u":
        return "u"
    if s in ("l", "ll"):
        return "l"
    return "ul"


def evaluate(node, env):
    """-> (value, type).  env: list of (name, value, type)."""
    k = node[0]
    if k == "lit":
        return _chk(node[1]), lit_suffix_type(node[3], node[1], node[2])
    if k == "chr":
        c = node[1]
        return (c - 256 if c >= 128 else c), "c"      # plain char is signed on this platform
    if k == "bool":
        return node[1], "b"
    if k == "ref":
        if not env:
            raise Invalid("no referent")
        _, v, t = env[node[1] % len(env)]
        return v, t
    if k == "par":
        return evaluate(node[1], env)
    if k == "comma":
        evaluate(node[1], env)
        return evaluate(node[2], env)
    if k == "un":
        op = node[1]
        v, t = evaluate(node[2], env)
        if op == "!":
            return (0 if v else 1), "b"
        t = _promote(t)
        if op == "+":
            return v, t
        if op == "-":
            if t in ("u", "ul"):
                if v != 0:
                    raise Invalid("negating unsigned")
                return 0, t
            return _chk(-v), t
        if op == "~":
            if t in ("u", "ul"):
                raise Invalid("~ of unsigned leaves int range")
            return _chk(~v), t
        raise Invalid("bad unary")
    if k == "cast":
        v, t = evaluate(node[3], env)
        rt, bits, signed = CAST_TYPES[node[2]]
        if node[2] == "bool":
            return (1 if v else 0), "b"
        m = v & ((1 << bits) - 1)
        if signed and m >= (1 << (bits - 1)):
            m -= (1 << bits)
        return _chk(m), rt
    if k == "tern":
        c, _ = evaluate(node[1], env)
        a, ta = evaluate(node[2], env)
        b, tb = evaluate(node[3], env)
        ct = _common(ta, tb)
        _conv_operand(a, ta, ct)
        _conv_operand(b, tb, ct)
        return (a if c else b), ct
    if k == "bin":
        op = node[1]
        a, ta = evaluate(node[2], env)
        b, tb = evaluate(node[3], env)
        if op == "&&":
            return (1 if (a and b) else 0), "b"
        if op == "||":
            return (1 if (a or b) else 0), "b"
        if op in ("<<", ">>"):
            lt = _promote(ta)
            if not (0 <= b <= 31):
                raise Invalid("shift count")
            if a < 0:
                if op == "<<":
                    raise Invalid("left shift of negative")
                return a >> b, lt           # arithmetic shift (g++)
            return (_chk(a << b) if op == "<<" else a >> b), lt
        ct = _common(ta, tb)
        _conv_operand(a, ta, ct)
        _conv_operand(b, tb, ct)
        if op in ("<", ">", "<=", ">=", "==", "!="):
            r = {"<": a < b, ">": a > b, "<=": a <= b, ">=": a >= b, "==": a == b, "!=": a != b}[op]
            return int(r), "b"
        if op == "+":
            r = a + b
        elif op == "-":
            r = a - b
        elif op == "*":
            r = a * b
        elif op in ("/", "%"):
            if b == 0:
                raise Invalid("division by zero")
            if a == INT_MIN and b == -1:
                raise Invalid("INT_MIN/-1")
            q = abs(a) // abs(b)
            if (a < 0) != (b < 0):
                q = -q
            r = q if op == "/" else a - q * b
        elif op == "&":
            r = a & b
        elif op == "|":
            r = a | b
        elif op == "^":
            r = a ^ b
        else:
            raise Invalid("bad op " + op)
        if ct in ("u", "ul") and r < 0:
            raise Invalid("unsigned wrap")
        return _chk(r), ct
    raise Invalid("bad node %r" % (k,))


def repair(node, env):
    """Return a valid expression derived from node (children repaired bottom-up; an invalid
    operator application is replaced by its first operand)."""
    k = node[0]
    if k in ("lit", "chr", "bool"):
        return node
    if k == "ref":
        return node if env else ["lit", node[1] % 7, "dec", ""]
    if k == "par":
        return ["par", repair(node[1], env)]
    if k == "comma":
        return ["comma", repair(node[1], env), repair(node[2], env)]
    if k == "un":
        n = ["un", node[1], repair(node[2], env)]
    elif k == "cast":
        n = ["cast", node[1], node[2], repair(node[3], env)]
    elif k == "tern":
        n = ["tern", repair(node[1], env), repair(node[2], env), repair(node[3], env)]
    elif k == "bin":
        n = ["bin", node[1], repair(node[2], env), repair(node[3], env)]
    else:
        raise ValueError(node)
    try:
        evaluate(n, env)
        return n
    except Invalid:
        return n[2] if k in ("un", "bin", "tern") else n[3]


def _lit_text(value, base, suffix):
    if base == "hex":
        s = "0x%x" % value if value % 2 else "0X%X" % value
    elif base == "oct":
        s = "0%o" % value if value else "0"
    elif base == "bin":
        s = "0b" + bin(value)[2:]
    elif base == "sep" and value >= 1000:
        s = "{:,}".format(value).replace(",", "'")
    else:
        s = "%d" % value
    return s + suffix


def _chr_text(code, form):
    if form == "simple" and code in SIMPLE_ESC:
        return "'%s'" % SIMPLE_ESC[code]
    if form == "oct":
        return "'\\%o'" % code
    if form == "hex":
        return "'\\x%x'" % code
    if 32 <= code < 127 and code not in (39, 92):
        return "'%s'" % chr(code)
    return "'\\x%x'" % code


def render(node, env, pp=False):
    """-> (text, precedence of the outermost construct).  pp=True renders for #if
    (true/false stay, no casts expected)."""
    k = node[0]
    if k == "lit":
        return _lit_text(node[1], node[2], node[3]), P_PRIMARY
    if k == "chr":
        return _chr_text(node[1], node[2]), P_PRIMARY
    if k == "bool":
        return ("true" if node[1] else "false"), P_PRIMARY
    if k == "ref":
        return env[node[1] % len(env)][0], P_PRIMARY
    if k == "par":
        return "(" + render(node[1], env, pp)[0] + ")", P_PRIMARY
    if k == "comma":
        return "(" + render(node[1], env, pp)[0] + ", " + _sub(node[2], env, 1, pp) + ")", P_PRIMARY
    if k == "un":
        s = _sub(node[2], env, P_UNARY, pp)
        return node[1] + (" " if node[1] in "+-" and s[0] in "+-" else "") + s, P_UNARY
    if k == "cast":
        style, ty = node[1], node[2]
        if style == "static":
            return "static_cast<%s>(%s)" % (ty, render(node[3], env, pp)[0]), P_PRIMARY
        if style == "func" and " " not in ty:
            return "%s(%s)" % (ty, render(node[3], env, pp)[0]), P_PRIMARY
        return "(%s)%s" % (ty, _sub(node[3], env, P_UNARY, pp)), P_UNARY
    if k == "tern":
        return "%s ? %s : %s" % (_sub(node[1], env, P_TERN + 1, pp), render(node[2], env, pp)[0],
                                 _sub(node[3], env, P_TERN, pp)), P_TERN
    if k == "bin":
        p = PREC[node[1]]
        return "%s %s %s" % (_sub(node[2], env, p, pp), node[1], _sub(node[3], env, p + 1, pp)), p
    raise ValueError(node)


def _sub(node, env, need, pp):
    s, p = render(node, env, pp)
    return "(" + s + ")" if p < need else s


def features(node, acc=None):
    """feature tags of an expression (operators, literal kinds, casts, refs)"""
    if acc is None:
        acc = set()
    k = node[0]
    if k == "lit":
        acc.add("literal." + node[2])
        if node[3]:
            acc.add("literal.suffix")
    elif k == "chr":
        acc.add("literal.char." + node[2])
    elif k == "bool":
        acc.add("literal.bool")
    elif k == "ref":
        acc.add("ref")
    elif k == "par":
        features(node[1], acc)
    elif k == "comma":
        acc.add("op.,")
        features(node[1], acc); features(node[2], acc)
    elif k == "un":
        acc.add("op.u" + node[1])
        features(node[2], acc)
    elif k == "cast":
        acc.add("cast." + node[1])
        acc.add("cast.to." + node[2].replace(" ", "_"))
        features(node[3], acc)
    elif k == "tern":
        acc.add("op.?:")
        for c in node[1:]:
            features(c, acc)
    elif k == "bin":
        acc.add("op." + node[1])
        features(node[2], acc); features(node[3], acc)
    return acc


def n_ops(node):
    k = node[0]
    if k in ("lit", "chr", "bool", "ref"):
        return 0
    return 1 + sum(n_ops(c) for c in node[1:] if isinstance(c, list))


def uses(node, tags_off):
    """True if the expression uses a feature that is switched off"""
    return bool(features(node) & tags_off)


# ---- strategies ---------------------------------------------------------------------------------

def literals(pp=False):
    vals = st.one_of(st.sampled_from(BOUNDARY), st.integers(0, 300), st.integers(0, INT_MAX))
    bases = st.sampled_from(["dec", "dec", "hex", "oct", "bin", "sep"])
    suff = st.sampled_from(["", "", "", "", "u", "U", "l", "L", "ul", "UL", "ll", "LL", "ull", "uLL", "LU"])
    lit = st.builds(lambda v, b, s: ["lit", v, b, s], vals, bases, suff)
    ch = st.builds(lambda c, f: ["chr", c, f], st.one_of(st.integers(0, 255), st.sampled_from(sorted(SIMPLE_ESC))),
                   st.sampled_from(["plain", "oct", "hex", "simple"]))
    bl = st.builds(lambda b: ["bool", b], st.integers(0, 1))
    return st.one_of(lit, lit, lit, ch, bl)


def expressions(max_leaves=12, refs=True, casts=True, comma=True, pp=False):
    leaf = literals(pp)
    if refs:
        leaf = st.one_of(leaf, leaf, st.builds(lambda n: ["ref", n], st.integers(0, 1000)))

    def ext(ch):
        alts = [
            st.builds(lambda o, a, b: ["bin", o, a, b], st.sampled_from(BIN_OPS), ch, ch),
            st.builds(lambda o, a, b: ["bin", o, a, b], st.sampled_from(BIN_OPS), ch, ch),
            st.builds(lambda o, a: ["un", o, a], st.sampled_from(["-", "+", "~", "!"]), ch),
            st.builds(lambda c, a, b: ["tern", c, a, b], ch, ch, ch),
            st.builds(lambda a: ["par", a], ch),
            # shifts with a count that is usually valid (a random operand rarely is), also of negated operands
            st.builds(lambda o, a, c, neg: ["bin", o, ["par", ["un", "-", a]] if neg else a, ["lit", c, "dec", ""]],
                      st.sampled_from(["<<", ">>", ">>"]), ch, st.integers(0, 31), st.booleans()),
        ]
        if casts:
            alts.append(st.builds(lambda s, t, a: ["cast", s, t, a], st.sampled_from(["c", "static", "func"]),
                                  st.sampled_from(sorted(CAST_TYPES)), ch))
        if comma:
            alts.append(st.builds(lambda a, b: ["comma", a, b], ch, ch))
        return st.one_of(alts)
    return st.recursive(leaf, ext, max_leaves=max_leaves)
