"""./check front end."""
import argparse
import importlib
import os
import sys

from . import build, core


def setup():
    import concurrent.futures as cf
    from . import aux
    with cf.ThreadPoolExecutor(4) as ex:
        futs = [ex.submit(build.ensure, v) for v in ("std", "fuzz")]
        futs.append(ex.submit(aux.ensure_all))
        for f in futs:
            f.result()
    # harnesses and the python-native run-time object are built on top of the two trees
    aux.ensure_pyrt()
    for name, variant, libs in (("fz_parse", "fuzz", ("cppParser", "dtoolutil", "dtoolbase")),):
        try:
            aux.ensure_harness(name, variant, libs=libs)
        except Exception as e:       # a check that needs it will report the problem itself
            print("setup: harness %s: %s" % (name, e))
    print("setup ok")
    return 0


def main():
    ap = argparse.ArgumentParser()
    ap.add_argument("prop", nargs="?")
    ap.add_argument("--tier", default=None)
    ap.add_argument("--replay", default=None)
    ap.add_argument("--setup", action="store_true")
    a = ap.parse_args()
    if a.setup:
        return setup()
    if not a.prop:
        ap.error("property id required")
    tier = a.tier or os.environ.get("VERIF_TIER") or "quick"
    if tier not in ("quick", "thorough"):
        ap.error("bad tier")
    try:
        seed = int(os.environ.get("VERIF_SEED", "0"))
    except ValueError:
        seed = 0
    try:
        mod = importlib.import_module("vf.props." + a.prop.lower())
    except ImportError as e:
        print("no check for %s: %s" % (a.prop, e), file=sys.stderr)
        return 2
    try:
        return core.main_check(mod, tier, seed, replay=a.replay)
    except build.BuildError as e:
        print("CHECK-BROKEN build failed: %s" % e, file=sys.stderr)
        return 2
    except core.Broken as e:
        print("CHECK-BROKEN %s" % e, file=sys.stderr)
        return 2


if __name__ == "__main__":
    sys.exit(main())
