"""Client for the -python (handle-style) back-end: imports the extension module and calls the wrapper functions by the names the
database gives.  Same plan format and RET lines as drv_c.py; object handles are the integers the wrappers hand out."""
import ctypes
import importlib
import json
import os
import struct
import sys

CODE = {"bool": "b", "char": "i8", "signed char": "i8", "unsigned char": "u8", "short int": "i16", "unsigned short int": "u16", "int": "i32",
        "unsigned int": "u32", "long int": "i64", "unsigned long int": "u64", "long long int": "i64", "unsigned long long int": "u64",
        "float": "f32", "double": "f64"}


def fmt(t, v, lib):
    k = t["k"]
    if k == "void":
        return "void" if v is None else "void!=%r" % (v,)
    if k == "prim":
        code = CODE[t["name"]]
        if code == "b":
            return "b:%d" % (1 if v else 0) if isinstance(v, (bool, int)) else "b:?%r" % (v,)
        if code == "f32":
            return "f32:" + struct.pack("<f", v).hex()
        if code == "f64":
            return "f64:" + struct.pack("<d", v).hex()
        if isinstance(v, str) and len(v) == 1:
            v = ord(v)
        return "%s:%d" % (code, v)
    if k == "enum":
        return "e:%d" % v
    if k == "str":
        if v is None:
            return "nil"
        return "s:" + (v.encode("utf-8") if isinstance(v, str) else bytes(v)).hex()
    if k == "ptr":
        if not v:
            return "nil"
        f = getattr(lib, "vf_desc_K%d" % t["cls"])
        f.restype = ctypes.c_char_p
        f.argtypes = [ctypes.c_void_p]
        return f(v).decode()
    raise SystemExit("unknown type %r" % (t,))


def main():
    plan = json.load(open(sys.argv[1]))
    sys.path.insert(0, os.path.dirname(plan["so"]))
    mod = importlib.import_module(plan["module"])
    lib = ctypes.CDLL(plan["so"], mode=os.RTLD_NOW | os.RTLD_GLOBAL)
    slots = {}
    for i, st in enumerate(plan["steps"]):
        fn = getattr(mod, st["w"])
        args = []
        for p, a in zip(st["ptypes"], st["args"]):
            if a["k"] == "slot":
                args.append(slots[a["slot"]])
            elif a["k"] == "null":
                args.append(0 if p["k"] == "ptr" else None)
            elif a["k"] == "bytes":
                args.append(bytes.fromhex(a["hex"]).decode("utf-8"))
            elif p["k"] == "prim" and p["name"] in ("float", "double"):
                args.append(float(a["v"]))
            else:
                args.append(a["v"])
        r = fn(*args)
        if st.get("bind") is not None:
            slots[st["bind"]] = r
        print("RET %d %s" % (i, fmt(st["rtype"], r, lib)), flush=True)
        if st.get("free_with") and r:
            getattr(mod, st["free_with"])(r)
        if st.get("kill") is not None:
            slots.pop(st["kill"], None)
    print("DONE", flush=True)


if __name__ == "__main__":
    main()
