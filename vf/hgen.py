"""hgen: generator of small C++ libraries together with a ground-truth model.

A Hypothesis strategy (`raw_libraries`) draws a *raw* JSON description; `build(raw)` normalises it into
a `Lib` (resolves references, drops ill-formed constructs, names every entity uniquely) and renders

  files        header files (main file(s) for the command line, headers reached through cwd / -I / -S)
  impl         instrumented definitions of everything declared (never shown to interrogate)
  entities     ground-truth facts per entity (what C04/C05/C11/C01/C02 compare with)

Every name carries its entity id, so any name found in a database, a symbol table or dir(module)
maps back to exactly one model entity.
"""
from hypothesis import strategies as st

PRIMS = ["bool", "char", "signed char", "unsigned char", "short", "unsigned short", "int", "unsigned int", "long",
         "unsigned long", "long long", "unsigned long long", "float", "double"]
INTLIKE = set(PRIMS[:12])
VIS = ["published", "public", "protected", "private"]
PY_KEYWORD_NAMES = ["del", "from", "pass", "lambda", "is", "yield", "global", "with", "as", "in", "def", "import", "raise", "async"]
FILES = ["main", "cwd", "I", "S", "sib"]
OPS = ["[]", "==", "<", "+", "-", "*", "+=", "()", "!=", "~", "unary-"]


# ---- raw strategies ---------------------------------------------------------------------------------------

def _rawtype():
    return st.one_of(
        st.builds(lambda p: {"k": "prim", "p": p}, st.integers(0, len(PRIMS) - 1)),
        st.builds(lambda p: {"k": "prim", "p": p}, st.sampled_from([6, 6, 13, 0, 7])),
        st.builds(lambda e: {"k": "enum", "e": e}, st.integers(0, 5)),
        st.just({"k": "cstr"}),
        st.builds(lambda m: {"k": "str", "mode": m}, st.integers(0, 1)),
        st.builds(lambda c, m: {"k": "obj", "c": c, "mode": m}, st.integers(0, 7), st.integers(0, 4)),
        st.builds(lambda c, m: {"k": "obj", "c": c, "mode": m}, st.integers(0, 7), st.integers(0, 4)),
    )


def _rawsig():
    return st.builds(lambda ps, ret, ndef, dv: {"params": ps, "ret": ret, "ndef": ndef, "dv": dv},
                     st.lists(_rawtype(), max_size=4), st.one_of(st.just({"k": "void"}), _rawtype()), st.integers(0, 3),
                     st.integers(0, 1000))


def _rawmember():
    vis = st.sampled_from([0, 0, 0, 1, 1, 2, 3])
    method = st.builds(lambda v, stc, cst, virt, ovs, doc, ovvis: {"m": "method", "vis": v, "static": stc, "const": cst, "virt": virt,
                                                                    "ovs": ovs, "doc": doc, "ovvis": ovvis},
                       vis, st.booleans(), st.booleans(), st.sampled_from([0, 0, 0, 1, 1, 2]), st.lists(_rawsig(), min_size=1, max_size=3),
                       st.integers(0, 3), st.lists(st.sampled_from([None, None, 0, 1, 2, 3]), max_size=3))
    override = st.builds(lambda v, pick, j, flip: {"m": "override", "vis": v, "pick": pick, "j": j, "flip": flip}, vis, st.integers(0, 50), st.integers(0, 5),
                         st.sampled_from([False, False, False, True]))
    ctor = st.builds(lambda v, ps, ex, form, dv: {"m": "ctor", "vis": v, "params": ps, "explicit": ex, "form": form, "dv": dv},
                     vis, st.lists(_rawtype(), max_size=3), st.booleans(), st.sampled_from([0, 0, 0, 1, 2]), st.integers(0, 1000))
    dtor = st.builds(lambda v, virt, form: {"m": "dtor", "vis": v, "virt": virt, "form": form}, st.sampled_from([0, 1, 1, 1, 2, 3]),
                     st.booleans(), st.sampled_from([0, 0, 1]))
    field = st.builds(lambda v, t, stc, cst: {"m": "field", "vis": v, "t": t, "static": stc, "const": cst}, vis, _rawtype(),
                      st.booleans(), st.booleans())
    prop = st.builds(lambda ro, t: {"m": "prop", "ro": ro, "t": t}, st.booleans(), _rawtype())
    seq = st.just({"m": "seq"})
    enum = st.builds(lambda v, sc, n: {"m": "enum", "vis": v, "scoped": sc, "n": n}, vis, st.booleans(), st.integers(1, 3))
    op = st.builds(lambda v, o, t: {"m": "op", "vis": v, "op": o, "t": t}, vis, st.integers(0, len(OPS) - 1), _rawtype())
    return st.one_of(method, method, method, ctor, dtor, field, field, prop, seq, enum, op, override, override, override)


def _rawclass():
    base = st.builds(lambda c, a, v: {"c": c, "acc": a, "virt": v}, st.integers(0, 7), st.sampled_from([0, 0, 0, 1, 2]),
                     st.sampled_from([False, False, False, True]))
    return st.builds(lambda kw, bases, members, file, inpub, doc: {"kw": kw, "bases": bases, "members": members, "file": file,
                                                                   "inpub": inpub, "doc": doc},
                     st.integers(0, 1), st.lists(base, max_size=2), st.lists(_rawmember(), max_size=7),
                     st.sampled_from([0, 0, 0, 0, 1, 2, 3, 4]), st.booleans(), st.integers(0, 3))


def raw_libraries(max_classes=5, max_funcs=5):
    func = st.builds(lambda ovs, file, inpub, doc: {"ovs": ovs, "file": file, "inpub": inpub, "doc": doc},
                     st.lists(_rawsig(), min_size=1, max_size=3), st.sampled_from([0, 0, 0, 1, 2, 3, 4]), st.booleans(), st.integers(0, 3))
    enum = st.builds(lambda sc, n, file, inpub: {"scoped": sc, "n": n, "file": file, "inpub": inpub}, st.booleans(), st.integers(1, 4),
                     st.sampled_from([0, 0, 0, 1, 2, 3, 4]), st.booleans())
    glob = st.builds(lambda t, c, inpub: {"t": t, "const": c, "inpub": inpub}, _rawtype(), st.booleans(), st.booleans())
    macro = st.builds(lambda k, v, file: {"k": k, "v": v, "file": file}, st.integers(0, 2), st.integers(0, 100000),
                      st.sampled_from([0, 0, 1, 2, 3, 4]))
    plain = st.builds(lambda ns, enums, classes, funcs, globs, macros, tds: {"ns": ns, "enums": enums, "classes": classes,
                                                                             "funcs": funcs, "globals": globs, "macros": macros,
                                                                             "typedefs": tds},
                      st.booleans(), st.lists(enum, max_size=3), st.lists(_rawclass(), min_size=1, max_size=max_classes),
                      st.lists(func, max_size=max_funcs), st.lists(glob, max_size=3), st.lists(macro, max_size=3),
                      st.lists(st.integers(0, 7), max_size=2))

    def add_family(raw, vis_list, derived, inpub, acc):
        """a 'virtual family': a base with an overloaded virtual method whose flavours have individual visibilities,
        and derived classes overriding some flavours -- the shape the inherited-virtual rules are about"""
        raw = dict(raw)
        classes = list(raw["classes"])
        bi = len(classes)
        n_ov = len(vis_list)
        ovs = [{"params": [{"k": "prim", "p": [6, 13, 0][i]} for i in range(j)], "ret": {"k": "prim", "p": 6}, "ndef": 0, "dv": 0} for j in range(n_ov)]
        classes.append({"kw": 0, "bases": [], "members": [{"m": "method", "vis": vis_list[0], "static": False, "const": True, "virt": 1, "ovs": ovs,
                                                           "doc": 0, "ovvis": [None] + vis_list[1:]},
                                                          {"m": "dtor", "vis": 1, "virt": True, "form": 0}],
                        "file": 0, "inpub": inpub, "doc": 0})
        for di, (dvis, j, extra) in enumerate(derived):
            members = [{"m": "override", "vis": dvis, "pick": 0, "j": j}]
            if extra:
                members.append({"m": "override", "vis": (dvis + 1) % 3, "pick": 0, "j": j + 1})
            members.append({"m": "method", "vis": 0, "static": False, "const": True, "virt": 0, "doc": 0,
                            "ovs": [{"params": [], "ret": {"k": "prim", "p": 6}, "ndef": 0, "dv": 0}]})
            classes.append({"kw": 0, "bases": [{"c": bi, "acc": acc, "virt": False}], "members": members, "file": 0, "inpub": False, "doc": 0})
        raw["classes"] = classes
        raw["ns"] = False
        return raw
    fam = st.builds(add_family, plain, st.lists(st.sampled_from([0, 0, 1, 1, 2]), min_size=2, max_size=3),
                    st.lists(st.tuples(st.sampled_from([0, 0, 0, 1]), st.integers(0, 2), st.booleans()), min_size=1, max_size=2), st.booleans(),
                    st.sampled_from([0, 0, 0, 1]))
    return st.one_of(plain, plain, plain, fam)


# ---- model ------------------------------------------------------------------------------------------------

# ---- a class with every flavour of property (C11 / C03): sequence, mapping with a key sequence, has/clear, deleter ----------------

def props_header(variant=0):
    """-> (header text, implementation text, {element scoped name: {link field: function name}}).  `variant` moves the class's
    functions to other positions of the database (padding methods before the properties)."""
    pad = "".join("  int pad%d(int a = %d) const { return a; }\n" % (i, i) for i in range(variant % 4))
    h = """
class VfReg {
PUBLISHED:
  VfReg() {}
%s  int get_num_slots() const { return 3; }
  int get_slot(int n) const { return _slots[n %% 3]; }
  void set_slot(int n, int v) { _slots[n %% 3] = v; }
  void remove_slot(int n) { _slots[n %% 3] = 0; }
  void insert_slot(int n, int v) { _slots[n %% 3] += v; }
  MAKE_SEQ_PROPERTY(slots, get_num_slots, get_slot, set_slot, remove_slot, insert_slot);
  int get_num_tags() const { return 2; }
  int get_tag(int n) const { return n + 40; }
  MAKE_SEQ_PROPERTY(tags, get_num_tags, get_tag);
  bool has_entry(int key) const { return key >= 0 && key < 3; }
  double get_entry(int key) const { return _slots[key %% 3] + 0.5; }
  void set_entry(int key, double value) { _slots[key %% 3] = (int)value; }
  void clear_entry(int key) { _slots[key %% 3] = -1; }
  int get_num_entries() const { return 3; }
  int get_entry_key(int n) const { return n; }
  MAKE_MAP_PROPERTY(entries, has_entry, get_entry, set_entry, clear_entry);
  MAKE_MAP_KEYS_SEQ(entries, get_num_entries, get_entry_key);
  bool has_peer(int key) const { return key == 1; }
  int get_peer(int key) const { return key * 2; }
  MAKE_MAP_PROPERTY(peers, has_peer, get_peer);
  bool has_size() const { return _size >= 0; }
  int get_size() const { return _size; }
  void set_size(int s) { _size = s; }
  void clear_size() { _size = -1; }
  MAKE_PROPERTY2(size, has_size, get_size, set_size, clear_size);
  int get_label() const { return _label; }
  void set_label(int l) { _label = l; }
  void del_label() { _label = 0; }
  MAKE_PROPERTY(label, get_label, set_label, del_label);
private:
  int _slots[3] = {1, 2, 3};
  int _size = 5;
  int _label = 9;
};
""" % pad
    expect = {
        "VfReg::slots": {"length_function": "get_num_slots", "getter": "get_slot", "setter": "set_slot", "del_function": "remove_slot", "insert_function": "insert_slot"},
        "VfReg::tags": {"length_function": "get_num_tags", "getter": "get_tag"},
        "VfReg::entries": {"has_function": "has_entry", "getter": "get_entry", "setter": "set_entry", "del_function": "clear_entry",
                           "length_function": "get_num_entries", "getkey_function": "get_entry_key"},
        "VfReg::peers": {"has_function": "has_peer", "getter": "get_peer"},
        "VfReg::size": {"has_function": "has_size", "getter": "get_size", "setter": "set_size", "clear_function": "clear_size"},
        "VfReg::label": {"getter": "get_label", "setter": "set_label", "del_function": "del_label"},
    }
    return h, "", expect


# ---- a class template whose instantiations are exported through typedefs (C01 / C03 / C11) --------------------------

TEMPLATE_HEADER = """
#ifndef CPPPARSER
#define VFT_LOG(label, argstr, retstr) vf_emit(std::string("CALL " label " this=") + vf_o(this) + " args=[" + (argstr) + "] -> " + (retstr))
#else
#define VFT_LOG(label, argstr, retstr)
#endif
template<class T, int N = 2>
class VfBox {
PUBLISHED:
  VfBox() : _v() {}
  VfBox(T v) : _v(v) { VFT_LOG("T0#0", vf_v(v), std::string("ctor")); }
  T get_v() const { VFT_LOG("T1#0", std::string(""), vf_v(_v)); return _v; }
  void set_v(T v) { _v = v; vf_acc += 1; VFT_LOG("T2#0", vf_v(v), std::string("void")); }
  T add(T a, T b = N) const { T r = (T)(_v + a + b); VFT_LOG("T3#0", vf_v(a) + "," + vf_v(b), vf_v(r)); return r; }
  VfBox<T, N> *self() { VFT_LOG("T4#0", std::string(""), vf_o(this)); return this; }
  static int count() { return N; }
  T _v;
#ifndef CPPPARSER
public:
  VfLife vf_life;
  long vf_acc = 0;
#endif
};
BEGIN_PUBLISH
typedef VfBox<int> VfBoxInt;
typedef VfBox<double, 3> VfBoxDouble;
typedef VfBox<unsigned char> VfBoxByte;
int vf_use_box(const VfBoxInt &b, VfBoxDouble *d = nullptr);
END_PUBLISH
"""

TEMPLATE_IMPL = """
int vf_use_box(const VfBoxInt &b, VfBoxDouble *d) {
  int r = b._v * 2 + (d ? (int)d->_v : -1);
  vf_emit(std::string("CALL T5#0 this=- args=[") + vf_o(&b) + "," + vf_o(d) + "] -> " + vf_v(r));
  return r;
}
extern "C" {
__attribute__((visibility("default"))) const char *vf_desc_K9001(const void *p) { static std::string s; const VfBoxInt *o = (const VfBoxInt *)p; s = o ? vf_o(o) + ":" + std::to_string(o->vf_acc) : std::string("nil"); return s.c_str(); }
__attribute__((visibility("default"))) const char *vf_desc_K9002(const void *p) { static std::string s; const VfBoxDouble *o = (const VfBoxDouble *)p; s = o ? vf_o(o) + ":" + std::to_string(o->vf_acc) : std::string("nil"); return s.c_str(); }
__attribute__((visibility("default"))) const char *vf_desc_K9003(const void *p) { static std::string s; const VfBoxByte *o = (const VfBoxByte *)p; s = o ? vf_o(o) + ":" + std::to_string(o->vf_acc) : std::string("nil"); return s.c_str(); }
}
"""


def template_classes():
    """model of the instantiations above: class dicts (qname = the name the database uses) and their callables"""
    out = []
    for cid, qn, tn, tdname in ((9001, "VfBox< int, 2 >", "int", "VfBoxInt"), (9002, "VfBox< double, 3 >", "double", "VfBoxDouble"), (9003, "VfBox< unsigned char, 2 >", "unsigned char", "VfBoxByte")):
        short = qn.replace(", 2 >", " >")
        c = {"id": cid, "kind": "class", "name": tdname, "qname": tdname, "dbname": qn, "aliases": [tdname, qn, short], "bases": [], "members": [], "file": "main",
             "inpub": True, "tmpl": True}
        t = Type("prim", tn)
        calls = [dict(kind="ctor", cls=c, ent=None, ov=0, fname=qn + "::VfBox", params=[], ndef=0, ret=None, label=None),
                 dict(kind="ctor", cls=c, ent=None, ov=1, fname=qn + "::VfBox", params=[t], ndef=0, ret=None, label="T0#0"),
                 dict(kind="method", cls=c, ent={"ovs": [1]}, ov=0, fname=qn + "::get_v", params=[], ndef=0, ret=t, const=True, name="get_v"),
                 dict(kind="method", cls=c, ent={"ovs": [1]}, ov=0, fname=qn + "::set_v", params=[t], ndef=0, ret=Type("void"), const=False, name="set_v"),
                 dict(kind="method", cls=c, ent={"ovs": [1]}, ov=0, fname=qn + "::add", params=[t, t], ndef=1, ret=t, const=True, name="add"),
                 dict(kind="method", cls=c, ent={"ovs": [1]}, ov=0, fname=qn + "::self", params=[], ndef=0, ret=Type("obj", mode=3, ref=c), const=False, name="self"),
                 dict(kind="static", cls=c, ent={"ovs": [1]}, ov=0, fname=qn + "::count", params=[], ndef=0, ret=Type("prim", "int"), name="count")]
        for call in calls:
            call["fnames"] = [a + "::" + call["fname"].split("::")[-1] for a in c["aliases"][1:]]
        out.append((c, calls))
    ci, cd = out[0][0], out[1][0]
    free = dict(kind="func", cls=None, ent={"ovs": [1]}, ov=0, fname="vf_use_box", params=[Type("obj", mode=2, ref=ci), Type("obj", mode=3, ref=cd)], ndef=1,
                ret=Type("prim", "int"), name="vf_use_box")
    return out, [free]


def with_arith_family(raw, pairs=False):
    """adds two free functions overloaded over the arithmetic types at one position (narrow next to wide: short/int/long long,
    float/double, the char kinds, bool): wrappers must keep the declared parameter type or the wrong overload runs"""
    raw = dict(raw)

    def prim(i):
        return {"k": "prim", "p": i}
    if pairs:
        # narrow/wide pairs only: a wrapper that forgets the declared type still compiles, but runs the other overload
        fams = [[{"params": [prim(i)], "ret": prim(6), "ndef": 0, "dv": 0} for i in pr] for pr in ((4, 6), (12, 13), (2, 6))]
        fams.append([{"params": [prim(6), prim(i)], "ret": prim(13), "ndef": 0, "dv": 0} for i in (5, 7)])
        raw["funcs"] = list(raw.get("funcs", [])) + [{"ovs": f, "file": 0, "inpub": True, "doc": 0} for f in fams]
        return raw
    fam = [{"params": [prim(i)], "ret": prim(6), "ndef": 0, "dv": 0} for i in (4, 6, 12, 13, 2, 3, 10, 0)]
    fam2 = [{"params": [prim(6), prim(i)], "ret": prim(13), "ndef": 0, "dv": 0} for i in (5, 7, 9, 12, 13, 1)]
    raw["funcs"] = list(raw.get("funcs", [])) + [{"ovs": fam, "file": 0, "inpub": True, "doc": 0}, {"ovs": fam2, "file": 0, "inpub": True, "doc": 0}]
    return raw


def with_member_defaults(raw):
    """adds to every class a published method whose default argument names a constant member of the class; the constant's
    visibility cycles through published / public / protected / private (generated code cannot name the last two)"""
    raw = dict(raw)
    classes = []
    for i, c in enumerate(raw.get("classes", [])):
        c = dict(c)
        m = {"m": "method", "vis": 0, "static": i % 3 == 1, "const": i % 2 == 0, "virt": 0, "doc": 0, "ovvis": [],
             "ovs": [{"params": [{"k": "prim", "p": (6, 5, 8, 3)[i % 4]}], "ret": {"k": "prim", "p": 6}, "ndef": 1, "dv": 1 + 3 * ((i + 2) % 4)}]}
        c["members"] = list(c["members"]) + [m]
        classes.append(c)
    raw["classes"] = classes
    return raw


class Type:
    """resolved type.  kind: void prim enum cstr str obj"""

    def __init__(self, kind, name=None, mode=None, ref=None):
        self.kind, self.name, self.mode, self.ref = kind, name, mode, ref   # ref: class/enum entity

    def cpp(self):
        if self.kind == "void":
            return "void"
        if self.kind == "prim":
            return self.name
        # globally qualified: inside a class with a private base the injected class name of that base is inaccessible
        if self.kind == "enum":
            return "::" + self.ref["qname"]
        if self.kind == "cstr":
            return "VfCStr" if getattr(self, "alias", False) else "const char *"
        if self.kind == "str":
            return "std::string" if self.mode == 0 else "const std::string &"
        q = "::" + self.ref["qname"]
        return {0: q, 1: q + " &", 2: "const " + q + " &", 3: q + " *", 4: "const " + q + " *"}[self.mode]

    def overload_key(self):
        """two parameters with equal keys cannot distinguish overloads"""
        if self.kind == "prim":
            return ("prim", self.name)
        if self.kind == "enum":
            return ("enum", self.ref["id"])
        if self.kind in ("cstr", "str"):
            return ("str",)          # const char * and std::string map to the same binding-level string type
        return ("obj", self.ref["id"])   # value / reference / pointer forms all become a pointer at binding level

    def category(self):
        """Python type category (C02)"""
        if self.kind == "prim":
            if self.name in ("float", "double"):
                return "float"
            return "int"
        if self.kind == "enum":
            return "int"
        if self.kind in ("cstr", "str"):
            return "str"
        if self.kind == "obj":
            return "obj%d" % self.ref["id"]
        return "void"

    def uses_class(self):
        return self.ref if self.kind == "obj" else None

    def uses_enum(self):
        return self.ref if self.kind == "enum" else None


class Lib:
    def __init__(self):
        self.entities = []
        self.classes = []
        self.enums = []
        self.funcs = []
        self.globals = []
        self.macros = []
        self.typedefs = []
        self.ns = None
        self.files = {}
        self.impl = ""
        self.features = set()
        self._n = 0

    def new_id(self):
        self._n += 1
        return self._n

    def ent(self, **kw):
        e = dict(kw)
        e["id"] = self.new_id()
        self.entities.append(e)
        return e


def _default_for(t, dv, lib):
    """a default-argument expression for type t (or None)"""
    if t.kind == "prim":
        if t.name == "bool":
            return ["true", "false"][dv % 2]
        if t.name in ("float", "double"):
            return ["1.5", "0.25", "2.0", "-4.5"][dv % 4] + ("f" if t.name == "float" and dv % 3 == 0 else "")
        if t.name == "char":
            return ["'a'", "'\\n'", "'\\''", "'\\\\'"][dv % 4]
        if t.name.startswith("unsigned"):
            return ["0", "7", "255u", "0x10"][dv % 4]
        return ["0", "-1", "42", "(1 << 4)", "0x7f"][dv % 5]
    if t.kind == "enum":
        vals = t.ref["values"]
        return "::" + t.ref["value_qual"] + vals[dv % len(vals)][0]
    if t.kind == "cstr":
        return ['"dflt"', '"a\\"b"', '""', "nullptr", '"x\\\\y"', '"caf\\xc3\\xa9"'][dv % 6]
    if t.kind == "str":
        return ['"dflt"', '"a\\"b\\n"', '""', 'std::string("xy")'][dv % 4]
    if t.kind == "obj" and t.mode in (3, 4):
        return "nullptr"
    return None


RANK = {"S": 0, "I": 1, "sib": 2, "cwd": 3, "main": 4}
UNRANK = {v: k for k, v in RANK.items()}


def _types_of(ent):
    ts = []
    if ent["kind"] in ("method", "function"):
        for ov in ent["ovs"]:
            ts += list(ov["params"]) + [ov["ret"]]
    elif ent["kind"] == "ctor":
        ts += list(ent["params"])
    elif ent["kind"] in ("field", "global", "property"):
        ts.append(ent["t"])
    return ts


def _dep_rank(ts, complete_needed=False):
    """lowest file rank at which declarations using these types are well-formed"""
    r = 0
    for t in ts:
        if t.kind == "enum":
            e = t.ref
            r = max(r, RANK[e["cls"]["file"]] if e.get("cls") else RANK[e["file"]])
        elif t.kind == "obj" and complete_needed and t.mode == 0:
            r = max(r, RANK[t.ref["file"]])
    return r


def build(raw, opts=None):
    """normalise raw -> Lib"""
    opts = opts or {}
    lib = Lib()
    lib.impl_mode = bool(opts.get("impl"))
    lib.no_overloads = bool(opts.get("no_overloads"))
    lib.py_distinct = bool(opts.get("py_distinct"))
    kw_names = bool(opts.get("keyword_names"))
    avoid = set(opts.get("avoid", ()))
    want_ns = raw.get("ns") and not opts.get("no_namespace")
    nsname = "nsp" if want_ns else None
    lib.ns = nsname
    qual = (nsname + "::") if nsname else ""

    # --- global enums
    for i, re_ in enumerate(raw.get("enums", [])):
        e = lib.ent(kind="enum", scoped=bool(re_["scoped"]), file=FILES[re_["file"] if not opts.get("single_file") else 0],
                    inpub=re_["inpub"], cls=None, vis="public")
        e["name"] = "En%d" % e["id"]
        e["qname"] = e["name"]                       # global enums live outside the namespace
        e["values"] = [("en%d_v%d" % (e["id"], j), j * 3 + (i % 2)) for j in range(re_["n"])]
        e["value_qual"] = (e["name"] + "::") if e["scoped"] else ""
        lib.enums.append(e)

    # --- classes, first pass: identities
    rawclasses = raw.get("classes", [])
    for rc in rawclasses:
        c = lib.ent(kind="class", kw=["class", "struct"][rc["kw"]], file=FILES[rc["file"] if not opts.get("single_file") else 0],
                    inpub=rc["inpub"], doc=rc.get("doc", 0))
        c["name"] = "K%d" % c["id"]
        c["qname"] = qual + c["name"]
        c["members"] = []
        c["bases"] = []
        c["nested_enums"] = []
        lib.classes.append(c)

    def rtype(rt, cur_class_index, by_value_ok=True, allow_void=False, own=None):
        k = rt["k"]
        if k == "void":
            return Type("void") if allow_void else Type("prim", "int")
        if k == "prim":
            if lib.py_distinct and PRIMS[rt["p"]] == "char":
                return Type("prim", "signed char")       # plain char is a one-character string at the Python level, not an integer
            return Type("prim", PRIMS[rt["p"]])
        if k == "enum":
            pool = lib.enums + [ne for c in lib.classes[:cur_class_index + 1] for ne in c["nested_enums"]
                                if ne["vis"] in ("published", "public") and c is not own]
            if own is not None:
                pool = pool + own["nested_enums"]     # inside the class any (already declared) nested enum is usable
            if not pool:
                return Type("prim", "int")
            return Type("enum", ref=pool[rt["e"] % len(pool)])
        if k == "cstr":
            return Type("cstr") if not opts.get("no_strings") else Type("prim", "int")
        if k == "str":
            return Type("str", mode=rt["mode"]) if not opts.get("no_strings") else Type("prim", "int")
        if k == "obj":
            c = lib.classes[rt["c"] % len(lib.classes)]
            mode = rt["mode"]
            idx = lib.classes.index(c)
            if mode in (0,) and (idx > cur_class_index or not by_value_ok):
                mode = 2         # by value needs a complete, earlier class
            if mode == 0 and lib.impl_mode and c.get("dtor_vis", "public") not in ("public", "published"):
                mode = 2         # the definitions copy by-value objects, which needs an accessible destructor
            return Type("obj", mode=mode, ref=c)
        raise ValueError(rt)

    # --- classes, second pass
    for ci, (rc, c) in enumerate(zip(rawclasses, lib.classes)):
        seen_bases = set()
        for rb in rc["bases"]:
            if ci == 0:
                break
            b = lib.classes[rb["c"] % ci]
            if b["id"] in seen_bases or b.get("final") or b.get("no_derive"):
                continue
            prev = [x["c"] for x in c["bases"]]
            if any(b in _ancestors(x) or x in _ancestors(b) for x in prev):
                # a direct base that is also an indirect base (inaccessible: g++ warns)
                if "base.direct_and_indirect" in avoid:
                    continue
                lib.features.add("base.direct_and_indirect")
            seen_bases.add(b["id"])
            c["bases"].append({"c": b, "acc": ["public", "protected", "private"][rb["acc"]], "virt": bool(rb["virt"])})
        if any(b["c"].get("abstract") for b in c["bases"]):
            c["abstract"] = True          # conservative: never used by value
        if c["bases"]:
            lib.features.add("class.base")
        if len(c["bases"]) > 1:
            lib.features.add("class.base.multi")
        if any(b["virt"] for b in c["bases"]):
            lib.features.add("class.base.virtual")
        have_dtor = False
        prop_n = 0
        for rm in rc["members"]:
            if rm["m"] == "dtor":
                c["dtor_vis"] = VIS[rm["vis"]]
                break
        for rm in rc["members"]:
            m = rm["m"]
            if m == "enum":
                e = lib.ent(kind="enum", scoped=bool(rm["scoped"]), cls=c, vis=VIS[rm["vis"]], file=c["file"], inpub=c["inpub"])
                e["name"] = "Ne%d" % e["id"]
                e["qname"] = c["qname"] + "::" + e["name"]
                e["values"] = [("ne%d_v%d" % (e["id"], j), j + 1) for j in range(rm["n"])]
                e["value_qual"] = (e["qname"] + "::") if e["scoped"] else (c["qname"] + "::")
                c["nested_enums"].append(e)
                c["members"].append(e)
                lib.features.add("api.enum.nested")
            elif m == "method":
                virt = ["", "virtual", "pure"][rm["virt"]]
                static = rm["static"] and not virt
                e = lib.ent(kind="method", cls=c, vis=VIS[rm["vis"]], static=static, const=rm["const"] and not static, virt=virt,
                            file=c["file"], doc=rm.get("doc", 0))
                e["name"] = "m%d_%s" % (e["id"], ["run", "get_val", "class", "set_it", "print", "x_y_z"][e["id"] % 6])
                if kw_names and e["id"] % 3 == 0:
                    kw = PY_KEYWORD_NAMES[e["id"] % len(PY_KEYWORD_NAMES)]
                    if not any(x.get("name") == kw for x in c["members"]) and not any(x.get("name") == kw for a in _ancestors(c) for x in a["members"]):
                        e["name"] = kw          # a Python keyword that is a plain identifier in C++
                        lib.features.add("name.keyword")
                e["ovs"] = _sigs(lib, rm["ovs"], lambda rt, **kw: rtype(rt, ci, own=c, **kw), e)
                if not e["ovs"]:
                    lib.entities.remove(e)
                    continue
                ovvis = rm.get("ovvis") or []
                for j, ov in enumerate(e["ovs"]):
                    ov["vis"] = VIS[ovvis[j]] if j > 0 and j < len(ovvis) and ovvis[j] is not None else e["vis"]
                if any(ov["vis"] != e["vis"] for ov in e["ovs"]):
                    lib.features.add("vis.per_overload")
                c["members"].append(e)
                if virt == "pure":
                    c["abstract"] = True
            elif m == "override":
                cands = []
                seen_b = set()

                def collect(k):
                    for b in k["bases"]:
                        if b["c"]["id"] in seen_b:
                            continue
                        seen_b.add(b["c"]["id"])
                        for x in b["c"]["members"]:
                            if x["kind"] == "method" and x.get("virt") and not x.get("overrides") and not x.get("op"):
                                cands.append(x)
                        collect(b["c"])
                collect(c)
                if not cands:
                    continue
                base_m = cands[rm["pick"] % len(cands)]
                j = rm["j"] % len(base_m["ovs"])
                if any(x["kind"] == "method" and x.get("overrides") == (base_m["id"], j) for x in c["members"]):
                    continue
                bts = list(base_m["ovs"][j]["params"]) + [base_m["ovs"][j]["ret"]]
                if any(t.kind == "enum" and t.ref.get("cls") is not None and t.ref["vis"] not in ("published", "public") for t in bts):
                    continue          # the base's non-public nested enum cannot be named in the derived class
                if rm.get("flip") and not lib.py_distinct:
                    # same name and parameters as the base's virtual but the other const-qualification: NOT an override, a method of
                    # its own that merely hides the base's
                    if any(x["kind"] == "method" and x["name"] == base_m["name"] for x in c["members"]):
                        continue          # one method of that name per class: flipped hider or true overrides, not both
                    e = lib.ent(kind="method", cls=c, vis=VIS[rm["vis"]], static=False, const=not base_m.get("const", False), virt="",
                                file=c["file"], doc=0, flipped=True, name_id=base_m["id"])
                    e["name"] = base_m["name"]
                    bov = base_m["ovs"][j]
                    e["ovs"] = [{"ov": 0, "params": list(bov["params"]), "pnames": list(bov["pnames"]), "defaults": [None] * len(bov["params"]),
                                 "ret": bov["ret"], "vis": e["vis"]}]
                    c["members"].append(e)
                    lib.features.add("class.const_flipped_hider")
                    continue
                if any(x["kind"] == "method" and x["name"] == base_m["name"] and x.get("flipped") for x in c["members"]):
                    continue
                e = lib.ent(kind="method", cls=c, vis=VIS[rm["vis"]], static=False, const=base_m.get("const", False), virt="virtual",
                            file=c["file"], doc=0, overrides=(base_m["id"], j), base_method=base_m)
                e["name"] = base_m["name"]
                bov = base_m["ovs"][j]
                e["ovs"] = [{"ov": 0, "params": list(bov["params"]), "pnames": list(bov["pnames"]), "defaults": [None] * len(bov["params"]),
                             "ret": bov["ret"], "vis": e["vis"]}]
                c["members"].append(e)
                lib.features.add("class.override")
            elif m == "ctor":
                params = [rtype(p, ci, own=c) for p in rm["params"]]
                # a by-value parameter of the class itself is ill-formed; a sole parameter of the class is a copy ctor
                params = [p for p in params if not (p.kind == "obj" and p.ref is c and p.mode == 0)]
                params = [Type("obj", mode=2, ref=p.ref) if (p.kind == "obj" and p.mode == 0 and p.ref.get("abstract")) else p for p in params]
                form = ["user", "default", "delete"][rm["form"]]
                if form != "user" and params:
                    form = "user"
                keyf = (lambda p: p.category()) if lib.py_distinct else (lambda p: p.overload_key())
                key = tuple(keyf(p) for p in params)
                if any(x["kind"] == "ctor" and tuple(keyf(p) for p in x["params"]) == key for x in c["members"]):
                    continue
                e = lib.ent(kind="ctor", cls=c, vis=VIS[rm["vis"]], params=params, explicit=rm["explicit"] and len(params) == 1,
                            form=form, file=c["file"], dv=rm["dv"])
                e["name"] = c["name"]
                e["pnames"] = ["a%d" % i for i in range(len(params))]
                c["members"].append(e)
            elif m == "dtor":
                if have_dtor:
                    continue
                have_dtor = True
                e = lib.ent(kind="dtor", cls=c, vis=VIS[rm["vis"]], virt=rm["virt"], form=["user", "default"][rm["form"]], file=c["file"])
                e["name"] = "~" + c["name"]
                c["members"].append(e)
                if e["vis"] == "private":
                    c["no_derive"] = True        # a class with a private destructor cannot be a base
            elif m == "field":
                t = rtype(rm["t"], ci - 1 if ci else -1)
                if t.kind == "obj" and t.mode in (1, 2):
                    t = Type("obj", mode=3, ref=t.ref)          # no reference members
                if t.kind == "str":
                    t = Type("str", mode=0)
                if t.kind == "obj" and t.mode == 0 and (t.ref is c or t.ref.get("abstract") or lib.classes.index(t.ref) >= ci or lib.impl_mode):
                    t = Type("obj", mode=3, ref=t.ref)
                e = lib.ent(kind="field", cls=c, vis=VIS[rm["vis"]], t=t, static=rm["static"], const=rm["const"] and rm["static"] and t.kind == "prim" and t.name in INTLIKE,
                            file=c["file"])
                e["name"] = "f%d_data" % e["id"]
                c["members"].append(e)
            elif m == "prop":
                t = rtype(rm["t"], ci - 1 if ci else -1)
                if t.kind == "obj" and t.mode in (0, 1):
                    t = Type("obj", mode=3, ref=t.ref)
                if t.kind == "obj" and t.mode == 2:
                    t = Type("obj", mode=4, ref=t.ref)
                if lib.impl_mode and t.kind == "obj" and t.ref is not c:
                    t = Type("prim", "int")           # a getter can only hand out an object it has: itself
                prop_n += 1
                g = lib.ent(kind="method", cls=c, vis="published", static=False, const=True, virt="", file=c["file"], doc=0, role="getter")
                g["name"] = "get_p%d" % g["id"]
                g["ovs"] = [{"ov": 0, "params": [], "pnames": [], "defaults": [], "ret": t}]
                c["members"].append(g)
                s_ = None
                if not rm["ro"]:
                    s_ = lib.ent(kind="method", cls=c, vis="published", static=False, const=False, virt="", file=c["file"], doc=0, role="setter")
                    s_["name"] = "set_p%d" % s_["id"]
                    s_["ovs"] = [{"ov": 0, "params": [t], "pnames": ["value"], "defaults": [None], "ret": Type("void")}]
                    c["members"].append(s_)
                p = lib.ent(kind="property", cls=c, vis="published", getter=g, setter=s_, t=t, file=c["file"])
                # the k-th property of every class has the same name: by-name tables must keep classes apart
                p["name"] = "prop%d" % sum(1 for x in c["members"] if x["kind"] == "property")
                c["members"].append(p)
                lib.features.add("api.property")
            elif m == "seq":
                n = lib.ent(kind="method", cls=c, vis="published", static=False, const=True, virt="", file=c["file"], doc=0, role="seq_num")
                n["name"] = "get_num_s%d" % n["id"]
                n["ovs"] = [{"ov": 0, "params": [], "pnames": [], "defaults": [], "ret": Type("prim", "int")}]
                g = lib.ent(kind="method", cls=c, vis="published", static=False, const=True, virt="", file=c["file"], doc=0, role="seq_get")
                g["name"] = "get_s%d" % g["id"]
                g["ovs"] = [{"ov": 0, "params": [Type("prim", "int")], "pnames": ["n"], "defaults": [None], "ret": Type("prim", "int")}]
                s_ = lib.ent(kind="seq", cls=c, vis="published", num=n, get=g, file=c["file"])
                s_["name"] = "get_items%d" % sum(1 for x in c["members"] if x["kind"] == "seq")      # same name in every class
                c["members"] += [n, g, s_]
                lib.features.add("api.seq")
            elif m == "op":
                opname = OPS[rm["op"]]
                if any(x["kind"] == "method" and x.get("op") == opname for x in c["members"]):
                    continue
                t = rtype(rm["t"], ci - 1 if ci else -1)
                if t.kind == "obj" and t.mode in (0, 1):
                    t = Type("obj", mode=2, ref=t.ref)
                e = lib.ent(kind="method", cls=c, vis=VIS[rm["vis"]], static=False, virt="", file=c["file"], doc=0, op=opname)
                self_cref = Type("obj", mode=2, ref=c)
                intt = Type("prim", "int")
                if opname == "[]":
                    e["name"], params, ret, const = "operator []", [intt], intt, True
                elif opname in ("==", "<", "!="):
                    e["name"], params, ret, const = "operator " + opname, [self_cref], Type("prim", "bool"), True
                elif opname in ("+", "-", "*"):
                    e["name"], params, ret, const = "operator " + opname, [intt], intt, True
                elif opname == "+=":
                    e["name"], params, ret, const = "operator +=", [intt], Type("obj", mode=1, ref=c), False
                elif opname == "()":
                    e["name"], params, ret, const = "operator ()", [intt, Type("prim", "double")], Type("prim", "double"), True
                elif opname == "~":
                    e["name"], params, ret, const = "operator ~", [], intt, True
                else:
                    e["name"], params, ret, const = "operator -", [], intt, True
                    if any(x["kind"] == "method" and x.get("op") == "-" for x in c["members"]):
                        lib.entities.remove(e)
                        continue
                e["const"] = const
                e["ovs"] = [{"ov": 0, "params": params, "pnames": ["a%d" % i for i in range(len(params))], "defaults": [None] * len(params),
                             "ret": ret}]
                if opname == "()" and t.kind != "prim":
                    # an overloaded call operator: the slot wrapper dispatches over a set of remaps
                    for ps in ([Type("cstr")], [Type("prim", "double")], [intt, intt, intt]):
                        e["ovs"].append({"ov": len(e["ovs"]), "params": ps, "pnames": ["a%d" % i for i in range(len(ps))], "defaults": [None] * len(ps), "ret": ret})
                    lib.features.add("api.operator.overloaded")
                c["members"].append(e)
                lib.features.add("api.operator")
        if c.get("abstract"):
            # the class turned out to be abstract: it cannot be passed or returned by value by its own members
            for x in c["members"]:
                if x["kind"] == "method":
                    for ov in x["ovs"]:
                        if ov["ret"].kind == "obj" and ov["ret"].mode == 0 and ov["ret"].ref is c:
                            ov["ret"] = Type("obj", mode=3, ref=c)
                        ov["params"] = [Type("obj", mode=2, ref=c) if (p.kind == "obj" and p.mode == 0 and p.ref is c) else p for p in ov["params"]]
                elif x["kind"] == "ctor":
                    x["params"] = [Type("obj", mode=2, ref=c) if (p.kind == "obj" and p.mode == 0 and p.ref is c) else p for p in x["params"]]
        # distinct unary/binary minus cannot both be named "operator -" in one overload set with our model: drop duplicates
        names = {}
        for x in list(c["members"]):
            if x["kind"] == "method" and x.get("op"):
                if x["name"] in names:
                    c["members"].remove(x)
                    lib.entities.remove(x)
                names[x["name"]] = 1

    # --- impl mode: every class must be constructible by its derived classes' user-provided constructors
    if lib.impl_mode:
        for c in lib.classes:
            ctors = [m for m in c["members"] if m["kind"] == "ctor"]
            for m in ctors:
                if m["form"] == "delete":
                    m["form"] = "user"
                if not m["params"] and m["vis"] == "private":
                    m["vis"] = "protected"
                if len(m["params"]) == 1 and m["params"][0].kind == "obj" and m["params"][0].ref is c:
                    m["explicit"] = False          # the definitions copy-initialise return values
                    if m["vis"] not in ("public", "published"):
                        m["vis"] = "public"
            if ctors and not any(not m["params"] for m in ctors):
                e = lib.ent(kind="ctor", cls=c, vis="public", params=[], explicit=False, form="user", file=c["file"], dv=0)
                e["name"] = c["name"]
                e["pnames"] = []
                c["members"].append(e)

    # --- file placement must respect completeness: a file is included before the files of higher rank
    for c in lib.classes:
        r = RANK[c["file"]]
        for b in c["bases"]:
            r = max(r, RANK[b["c"]["file"]])
        for m in c["members"]:
            r = max(r, _dep_rank(_types_of(m), complete_needed=(m["kind"] == "field")))
        c["file"] = UNRANK[r]
        for m in c["members"]:
            m["file"] = c["file"]

    # --- free functions
    for rf in raw.get("funcs", []):
        e = lib.ent(kind="function", file=FILES[rf["file"] if not opts.get("single_file") else 0], inpub=rf["inpub"], doc=rf.get("doc", 0), cls=None,
                    vis="public")
        e["name"] = "fn%d_%s" % (e["id"], ["calc", "print", "from", "make_it", "del"][e["id"] % 5])
        e["ovs"] = _sigs(lib, rf["ovs"], lambda rt, **kw: rtype(rt, len(lib.classes) - 1, **kw), e)
        if not e["ovs"]:
            lib.entities.remove(e)
            continue
        e["file"] = UNRANK[max(RANK[e["file"]], _dep_rank(_types_of(e)))]
        lib.funcs.append(e)
    for rg in raw.get("globals", []):
        t = rtype(rg["t"], len(lib.classes) - 1)
        if t.kind in ("obj", "str"):
            t = Type("prim", "int")
        e = lib.ent(kind="global", t=t, const=rg["const"] and t.kind == "prim", inpub=rg["inpub"], file="main", cls=None, vis="public")
        e["name"] = "g%d_var" % e["id"]
        e["file"] = UNRANK[max(RANK[e["file"]], _dep_rank([t]))]
        lib.globals.append(e)
    for rm in raw.get("macros", []):
        e = lib.ent(kind="macro", mk=["int", "str", "float"][rm["k"]], v=rm["v"], file=FILES[rm["file"] if not opts.get("single_file") else 0], cls=None,
                    vis="public", inpub=bool(rm["v"] % 2))
        e["name"] = "MC%d_DEF" % e["id"]
        lib.macros.append(e)
    for rt_ in raw.get("typedefs", []):
        c = lib.classes[rt_ % len(lib.classes)]
        e = lib.ent(kind="typedef", target=c, file="main", inpub=True, cls=None, vis="public")
        if c["file"] != "main" and False:
            pass
        e["name"] = "Td%d" % e["id"]
        lib.typedefs.append(e)
    _render(lib, opts)
    return lib


def _sigs(lib, rawsigs, rtype, ent):
    """normalised overload set: unique (arity, type-key prefix) over all callable arities"""
    out = []
    used = set()
    if lib.no_overloads:
        rawsigs = [dict(rs, ndef=0) for rs in rawsigs[:1]]
    for rs in rawsigs:
        params = [rtype(p) for p in rs["params"]]
        ret = rtype(rs["ret"], allow_void=True)
        if ret.kind == "obj" and ret.mode == 0 and ret.ref.get("abstract"):
            ret = Type("obj", mode=3, ref=ret.ref)
        params = [Type("obj", mode=2, ref=p.ref) if (p.kind == "obj" and p.mode == 0 and p.ref.get("abstract")) else p for p in params]
        defaults = [None] * len(params)
        nd = min(rs["ndef"], len(params))
        for i in range(len(params) - 1, len(params) - 1 - nd, -1):
            d = _default_for(params[i], rs["dv"] + i, lib)
            if d is None:
                break
            cls_ = ent.get("cls")
            if cls_ is not None and params[i].kind == "prim" and params[i].name in INTLIKE and params[i].name not in ("bool", "char") and (rs["dv"] + i) % 3 == 1:
                # the default names a constant member of the class declared earlier (published, public, protected or private): generated
                # code lives outside the class and cannot name the inaccessible ones
                consts = [m_ for m_ in cls_["members"] if m_["kind"] == "field" and m_.get("static") and m_.get("const")]
                if not consts:
                    f_ = lib.ent(kind="field", cls=cls_, vis=VIS[(rs["dv"] + i) // 3 % 4], t=Type("prim", "int"), static=True, const=True, file=cls_["file"])
                    f_["name"] = "f%d_data" % f_["id"]
                    cls_["members"].append(f_)
                    consts = [f_]
                if consts:
                    d = consts[(rs["dv"] + i) % len(consts)]["name"]
                    lib.features.add("api.default.member_const." + consts[(rs["dv"] + i) % len(consts)]["vis"])
            defaults[i] = d
        ndef = sum(1 for d in defaults if d is not None)
        if lib.py_distinct:
            # overloads must differ in the Python type category of some parameter (int / float / str / class)
            keys = [tuple(p.category() for p in params[:a]) for a in range(len(params) - ndef, len(params) + 1)]
        else:
            keys = [tuple(p.overload_key() for p in params[:a]) for a in range(len(params) - ndef, len(params) + 1)]
        if any(k in used for k in keys):
            continue
        used.update(keys)
        ovd = {"ov": len(out), "params": params, "pnames": ["a%d" % i for i in range(len(params))], "defaults": defaults, "ret": ret}
        if lib.impl_mode:
            impl_normalise_sig(ovd, None if ent.get("static") else ent.get("cls"))
            # C strings are sometimes spelled through a typedef (typedef const char *VfCStr;)
            if ovd["ret"].kind == "cstr" and (ent["id"] + len(out)) % 2 == 0:
                ovd["ret"].alias = True
            for i, p in enumerate(params):
                if p.kind == "cstr" and (ent["id"] + i) % 3 == 0:
                    p.alias = True
                    lib.features.add("type.typedef_cstr")
        out.append(ovd)
        if ndef:
            lib.features.add("api.default")
    if len(out) > 1:
        lib.features.add("api.overload")
    return out


# ---- rendering ---------------------------------------------------------------------------------------------

DOC_STYLES = [None, "//", "/**", "decoy"]


def _doc(ent, lines, indent=""):
    d = ent.get("doc", 0)
    style = DOC_STYLES[d]
    if style == "//":
        lines.append("%s// DOC_E%d describes this" % (indent, ent["id"]))
        ent["doc_token"] = "DOC_E%d" % ent["id"]
    elif style == "/**":
        lines.append("%s/**\n%s * DOC_E%d block\n%s */" % (indent, indent, ent["id"], indent))
        ent["doc_token"] = "DOC_E%d" % ent["id"]
    elif style == "decoy":
        lines.append("%s// DECOY_E%d is separated by a blank line\n" % (indent, ent["id"]))
        ent["doc_token"] = None
        ent["decoy_token"] = "DECOY_E%d" % ent["id"]


def _sig_text(name, ov, with_defaults=True):
    ps = []
    for p, n, d in zip(ov["params"], ov["pnames"], ov["defaults"]):
        s = "%s %s" % (p.cpp(), n)
        if with_defaults and d is not None:
            s += " = " + d
        ps.append(s)
    return "%s(%s)" % (name, ", ".join(ps))


def _render(lib, opts):
    pre = '#include <verif_prelude.h>\n#include <verif_rt.h>\n#include <string>\ntypedef const char *VfCStr;\n'
    per_file = {f: [] for f in FILES}
    fwd = []
    for c in lib.classes:
        fwd.append("%s %s;" % (c["kw"], c["name"]))

    def emit_global(ent, lines):
        """wrap a global-scope declaration in a publish region when asked"""
        f = per_file[ent["file"]]
        if ent.get("inpub"):
            f.append("BEGIN_PUBLISH")
        f.extend(lines)
        if ent.get("inpub"):
            f.append("END_PUBLISH")

    for e in lib.enums:
        vals = ", ".join("%s = %d" % (n, v) for n, v in e["values"])
        emit_global(e, ["enum %s%s { %s };" % ("class " if e["scoped"] else "", e["name"], vals)])
    for m in lib.macros:
        body = {"int": "(%d)" % m["v"], "str": '"mc %d"' % m["v"], "float": "%d.5" % (m["v"] % 1000)}[m["mk"]]
        emit_global(m, ["#define %s %s" % (m["name"], body)])

    for c in lib.classes:
        lines = []
        if lib.ns:
            lines.append("namespace %s {" % lib.ns)
        _doc(c, lines)
        bases = ""
        if c["bases"]:
            parts = []
            for b in c["bases"]:
                parts.append(("virtual " if b["virt"] else "") + b["acc"] + " " + b["c"]["name"])
            bases = " : " + ", ".join(parts)
        lines.append("%s %s%s {" % (c["kw"], c["name"], bases))
        cur = None
        for m in c["members"]:
            vis = m["vis"]
            if vis != cur:
                lines.append({"published": "PUBLISHED:", "public": "public:", "protected": "protected:", "private": "private:"}[vis])
                cur = vis
            k = m["kind"]
            if k == "enum":
                vals = ", ".join("%s = %d" % (n, v) for n, v in m["values"])
                lines.append("  enum %s%s { %s };" % ("class " if m["scoped"] else "", m["name"], vals))
            elif k == "method":
                for ov in m["ovs"]:
                    ovis = ov.get("vis", vis)
                    if ovis != cur:
                        lines.append({"published": "PUBLISHED:", "public": "public:", "protected": "protected:", "private": "private:"}[ovis])
                        cur = ovis
                    if ov["ov"] == 0:
                        _doc(m, lines, "  ")
                    pre_ = ("static " if m.get("static") else "") + ("virtual " if m.get("virt") else "")
                    post = (" const" if m.get("const") else "") + (" = 0" if m.get("virt") == "pure" else "")
                    lines.append("  %s%s %s%s;" % (pre_, ov["ret"].cpp(), _sig_text(m["name"], ov), post))
            elif k == "ctor":
                ov = {"params": m["params"], "pnames": m["pnames"], "defaults": [None] * len(m["params"])}
                suffix = {"user": "", "default": " = default", "delete": " = delete"}[m["form"]]
                lines.append("  %s%s%s;" % ("explicit " if m["explicit"] else "", _sig_text(c["name"], ov), suffix))
            elif k == "dtor":
                lines.append("  %s~%s()%s;" % ("virtual " if m["virt"] else "", c["name"], " = default" if m["form"] == "default" else ""))
            elif k == "field":
                t = m["t"]
                if m["static"] and m["const"]:
                    lines.append("  static const %s %s = 7;" % (t.cpp(), m["name"]))
                elif lib.impl_mode and not m["static"]:
                    init = {"prim": "true" if t.name == "bool" else ("1.5" if t.name in ("float", "double") else "7"), "cstr": '"field"', "str": '"field"',
                            "obj": "nullptr"}.get(t.kind) or ("::" + t.ref["value_qual"] + t.ref["values"][0][0])
                    lines.append("  %s %s VF_INIT(%s);" % (t.cpp(), m["name"], init))
                else:
                    lines.append("  %s%s %s;" % ("static " if m["static"] else "", t.cpp(), m["name"]))
            elif k == "property":
                if m["setter"]:
                    lines.append("  MAKE_PROPERTY(%s, %s, %s);" % (m["name"], m["getter"]["name"], m["setter"]["name"]))
                else:
                    lines.append("  MAKE_PROPERTY(%s, %s);" % (m["name"], m["getter"]["name"]))
            elif k == "seq":
                lines.append("  MAKE_SEQ(%s, %s, %s);" % (m["name"], m["num"]["name"], m["get"]["name"]))
        # every class gets a private tag word used by the instrumentation
        lines.append("#ifndef CPPPARSER\npublic:\n  VfLife vf_life;\n  long vf_acc = 0;\n#endif")
        lines.append("};")
        if lib.ns:
            lines.append("}")
        f = per_file[c["file"]]
        if c.get("inpub"):
            f.append("BEGIN_PUBLISH")
        f.extend(lines)
        if c.get("inpub"):
            f.append("END_PUBLISH")

    for fn in lib.funcs:
        lines = []
        for ov in fn["ovs"]:
            if ov["ov"] == 0:
                _doc(fn, lines)
            lines.append("%s %s;" % (ov["ret"].cpp(), _sig_text(fn["name"], ov)))
        emit_global(fn, lines)
    for g in lib.globals:
        if g["const"]:
            emit_global(g, ["extern const %s %s;" % (g["t"].cpp(), g["name"])])
        else:
            emit_global(g, ["extern %s %s;" % (g["t"].cpp(), g["name"])])
    for td in lib.typedefs:
        emit_global(td, ["typedef %s %s;" % (td["target"]["name"], td["name"])])

    files = {}
    # order of inclusion: S, I, cwd headers are included by the main header
    inc_lines = []
    names = {"cwd": "l_cwd.h", "I": "l_inc.h", "S": "l_sys.h", "sib": "l_sib.h"}
    for key in ("S", "I", "sib", "cwd"):
        if per_file[key]:
            if key == "S":
                inc_lines.append("#include <%s>" % names[key])
            else:
                inc_lines.append('#include "%s"' % names[key])
    fwd_text = "\n".join(fwd)
    if lib.ns:
        fwd_text = "namespace %s {\n%s\n}\nusing namespace %s;" % (lib.ns, fwd_text, lib.ns)
    common = "#ifndef L_COMMON_H\n#define L_COMMON_H\n" + pre + fwd_text + "\n#endif\n"
    files["sysdir/l_common.h"] = common

    def body(key):
        return "\n".join(per_file[key])

    # when something lives in a sibling header, the command-line header is given with a directory component
    # (pkg/l.h) and the sibling is found through the includer's directory, not through the working directory
    main = "pkg/l.h" if per_file["sib"] else "l.h"
    if lib.impl_mode:
        # the generated code includes every header on its own, in alphabetical order: each header must be self-contained,
        # so it includes the lower-ranked headers its declarations may depend on
        spell = {"S": "#include <l_sys.h>", "I": '#include "l_inc.h"', "sib": '#include "pkg/l_sib.h"'}
        lower = {"I": ["S"], "sib": ["S", "I"], "cwd": ["S", "I", "sib"]}
        for key, deps in lower.items():
            if per_file[key]:
                per_file[key] = [spell[k] for k in deps if per_file[k]] + per_file[key]
    files[main] = "#ifndef L_H\n#define L_H\n#include <l_common.h>\n" + "\n".join(inc_lines) + "\n" + body("main") + "\n#endif\n"
    if per_file["sib"]:
        files["pkg/l_sib.h"] = "#ifndef L_SIB_H\n#define L_SIB_H\n#include <l_common.h>\n" + body("sib") + "\n#endif\n"
    if per_file["cwd"]:
        files["l_cwd.h"] = "#ifndef L_CWD_H\n#define L_CWD_H\n#include <l_common.h>\n" + body("cwd") + "\n#endif\n"
    if per_file["I"]:
        files["incdir/l_inc.h"] = "#ifndef L_INC_H\n#define L_INC_H\n#include <l_common.h>\n" + body("I") + "\n#endif\n"
    if per_file["S"]:
        files["sysdir/l_sys.h"] = "#ifndef L_SYS_H\n#define L_SYS_H\n#include <l_common.h>\n" + body("S") + "\n#endif\n"
    lib.files = files
    lib.main = main
    lib.cmd_headers = [main]
    lib.search = ["-Iincdir", "-Ssysdir"]
    lib.gxx_inc = ["-I", ".", "-I", "incdir", "-I", "sysdir", "-I", "pkg"]


# ---- instrumented implementation (C01 / C02 / C03) -------------------------------------------------------------------

def impl_normalise_sig(ov, cls):
    """in 'impl' mode a function can only return an object it has at hand: *this or one of its parameters"""
    r = ov["ret"]
    if r.kind == "obj":
        # (a pointer or reference to a by-value parameter would dangle)
        ok = (cls is not None and r.ref is cls) or any(p.kind == "obj" and p.ref is r.ref and (p.mode != 0 or r.mode == 0) for p in ov["params"])
        if r.mode == 0 and (r.ref.get("abstract") or r.ref.get("no_copy")):
            ok = False
        if not ok:
            ov["ret"] = Type("prim", "int")


def _vexpr(t, name):
    """canonical text expression of a value of type t held in variable `name`"""
    if t.kind == "prim":
        return "vf_v(%s)" % name
    if t.kind == "enum":
        return "vf_e(%s)" % name
    if t.kind in ("cstr", "str"):
        return "vf_v(%s)" % name
    if t.kind == "obj":
        return "vf_o(%s%s)" % ("" if t.mode in (3, 4) else "&", name)
    return '""'


def _nexpr(t, name, i):
    if t.kind == "prim":
        return "%d * vf_num(%s)" % (i + 1, name)
    if t.kind == "enum":
        return "%d * (long long)%s" % (i + 1, name)
    if t.kind in ("cstr", "str"):
        return "%d * vf_len(%s)" % (i + 1, name)
    if t.kind == "obj":
        # the object's state, not its tag: tags depend on how many scratch objects a binding layer creates
        if t.mode in (3, 4):
            return "(%s ? %d * (long long)(%s->vf_acc + 1) : 0)" % (name, i + 1, name)
        return "%d * (long long)(%s.vf_acc + 1)" % (i + 1, name)
    return "0"


def _ancestors(c):
    out = []
    for b in c["bases"]:
        if b["c"] not in out:
            out.append(b["c"])
        for a in _ancestors(b["c"]):
            if a not in out:
                out.append(a)
    return out


def _body(ent, ov, cls, label, is_method, const):
    """body statements for a callable; label is the trace tag"""
    L = []
    terms = [_nexpr(p, n, i) for i, (p, n) in enumerate(zip(ov["params"], ov["pnames"]))]
    if is_method:
        terms.append("(long long)vf_acc")
    L.append("  long long vf_sum = %d%s;" % (ent["id"] % 97, "".join(" + " + t for t in terms)))
    r = ov["ret"]
    args = " + \",\" + ".join(_vexpr(p, n) for p, n in zip(ov["params"], ov["pnames"])) or '""'
    this = 'vf_o(this)' if is_method else '"-"'
    pre = '  std::string vf_line = std::string("CALL %s this=") + %s + " args=[" + %s + "] -> ";' % (label, this, args)
    L.append(pre)
    if is_method and not const:
        L.append("  vf_acc += vf_sum % 1000;")
    if r.kind == "void":
        L.append('  vf_emit(vf_line + "void");')
        return L
    if r.kind == "prim":
        if ent.get("role") == "seq_num":
            L.append("  int vf_r = (int)((unsigned long long)vf_sum % 4);")      # a sequence length: small and never negative
        elif r.name == "bool":
            L.append("  bool vf_r = (vf_sum & 1) != 0;")
        elif r.name in ("float", "double"):
            L.append("  %s vf_r = (%s)(vf_sum %% 4096) * 0.5 + 0.25;" % (r.name, r.name))
        else:
            L.append("  %s vf_r = (%s)(vf_sum * 2654435761LL + 12345);" % (r.name, r.name))
        L.append("  vf_emit(vf_line + vf_v(vf_r));")
        L.append("  return vf_r;")
    elif r.kind == "enum":
        vals = r.ref["values"]
        q = r.ref["value_qual"]
        L.append("  static const ::%s vf_vals[] = { %s };" % (r.ref["qname"], ", ".join("::" + q + n for n, _ in vals)))
        L.append("  ::%s vf_r = vf_vals[(unsigned long long)vf_sum %% %d];" % (r.ref["qname"], len(vals)))
        L.append("  vf_emit(vf_line + vf_e(vf_r));")
        L.append("  return vf_r;")
    elif r.kind in ("cstr", "str"):
        sargs = "".join(' + std::string(%s)' % (n if p.kind == "str" else "(%s ? %s : \"<nil>\")" % (n, n))
                        for p, n in zip(ov["params"], ov["pnames"]) if p.kind in ("cstr", "str"))
        if r.kind == "str" and r.mode == 0:
            L.append('  std::string vf_r = std::string("r%d:") + std::to_string(vf_sum)%s;' % (ent["id"], sargs))
        else:
            L.append("  static std::string vf_r;")
            L.append('  vf_r = std::string("r%d:") + std::to_string(vf_sum)%s;' % (ent["id"], sargs))
        L.append("  vf_emit(vf_line + vf_v(vf_r));")
        L.append("  return vf_r%s;" % (".c_str()" if r.kind == "cstr" else ""))
    elif r.kind == "obj":
        src = None
        for p, n in zip(ov["params"], ov["pnames"]):
            if p.kind == "obj" and p.ref is r.ref and (p.mode != 0 or r.mode == 0):
                src = (n, p.mode)
                break
        if src is None and is_method and (cls is r.ref or r.ref in _ancestors(cls)):
            src = ("this", 3)
        if src is None:
            L.append('  vf_emit(vf_line + "nil");')
            L.append("  return nullptr;")
            return L
        name, mode = src
        ptr = name if mode in (3, 4) else "&" + name
        cast = "(::%s *)" % r.ref["qname"]
        if r.mode == 0:
            L.append("  vf_emit(vf_line + vf_o(%s));" % ptr)
            L.append("  return *%s%s;" % (cast, ptr))
        elif r.mode in (1, 2):
            L.append("  vf_emit(vf_line + vf_o(%s));" % ptr)
            L.append("  return *%s%s;" % (cast, ptr))
        else:
            L.append("  vf_emit(vf_line + vf_o(%s));" % ptr)
            L.append("  return %s%s;" % (cast, ptr))
    return L


def render_impl(lib):
    """definitions of everything the headers declare (instrumented)"""
    L = ['#include "%s"' % lib.main, "#include <string>", ""]
    for c in lib.classes:
        q = c["qname"]
        for m in c["members"]:
            k = m["kind"]
            if k == "method":
                if m.get("virt") == "pure":
                    continue
                for ov in m["ovs"]:
                    label = "E%d#%d" % (m["id"] if not m.get("overrides") else m["id"], ov["ov"])
                    sig = _sig_text(m["name"], ov, with_defaults=False)
                    L.append("%s %s::%s%s {" % (ov["ret"].cpp(), q, sig, " const" if m.get("const") else ""))
                    L += _body(m, ov, c, label, not m.get("static"), bool(m.get("const")))
                    L.append("}")
            elif k == "ctor" and m["form"] == "user":
                ov = {"params": m["params"], "pnames": m["pnames"], "defaults": [None] * len(m["params"])}
                L.append("%s::%s {" % (q, _sig_text(c["name"], ov, with_defaults=False)))
                args = " + \",\" + ".join(_vexpr(p, n) for p, n in zip(m["params"], m["pnames"])) or '""'
                L.append('  vf_emit(std::string("CALL E%d#0 this=") + vf_o(this) + " args=[" + %s + "] -> ctor");' % (m["id"], args))
                L.append("}")
            elif k == "dtor" and m["form"] == "user":
                L.append("%s::~%s() {" % (q, c["name"]))
                L.append('  vf_emit(std::string("CALL E%d#0 this=") + vf_o(this) + " args=[] -> dtor");' % m["id"])
                L.append("}")
            elif k == "field" and m["static"]:
                t = m["t"]
                if m["const"]:
                    L.append("const %s %s::%s;" % (t.cpp(), q, m["name"]))
                elif t.kind == "prim":
                    L.append("%s %s::%s = %s;" % (t.cpp(), q, m["name"], "true" if t.name == "bool" else "7"))
                elif t.kind == "enum":
                    L.append("%s %s::%s = ::%s%s;" % (t.cpp(), q, m["name"], t.ref["value_qual"], t.ref["values"][0][0]))
                elif t.kind == "cstr":
                    L.append('const char *%s::%s = "static";' % (q, m["name"]))
                elif t.kind == "str":
                    L.append('std::string %s::%s = "static";' % (q, m["name"]))
                else:
                    L.append("%s %s::%s = nullptr;" % (t.cpp(), q, m["name"]))
    L.append('extern "C" {')
    for c in lib.classes:
        L.append('__attribute__((visibility("default"))) const char *vf_desc_K%d(const void *p) {' % c["id"])
        L.append("  static std::string s;")
        L.append("  const ::%s *o = (const ::%s *)p;" % (c["qname"], c["qname"]))
        L.append('  s = o == nullptr ? std::string("nil") : vf_o(o) + ":" + std::to_string(o->vf_acc);')
        L.append("  return s.c_str();")
        L.append("}")
    L.append('__attribute__((visibility("default"))) int vf_live_count() { return vf_live(); }')
    L.append('__attribute__((visibility("default"))) void vf_mark(const char *text) { vf_emit(text); }')
    L.append("}")
    for fn in lib.funcs:
        for ov in fn["ovs"]:
            L.append("%s %s {" % (ov["ret"].cpp(), _sig_text(fn["name"], ov, with_defaults=False)))
            L += _body(fn, ov, None, "E%d#%d" % (fn["id"], ov["ov"]), False, False)
            L.append("}")
    for g in lib.globals:
        t = g["t"]
        init = {"prim": "1" if t.name != "bool" else "true"}.get(t.kind) if t.kind == "prim" else None
        if t.kind == "prim":
            L.append("%s%s %s = %s;" % ("extern const " if g["const"] else "", t.cpp(), g["name"], "true" if t.name == "bool" else "5"))
        elif t.kind == "enum":
            L.append("%s%s %s = ::%s%s;" % ("extern const " if g["const"] else "", t.cpp(), g["name"], t.ref["value_qual"], t.ref["values"][0][0]))
        elif t.kind == "cstr":
            L.append('const char *%s = "global";' % g["name"])
        else:
            L.append("%s %s = nullptr;" % (t.cpp(), g["name"]))
    return "\n".join(L) + "\n"
