"""Hypothesis strategy for *model databases* (dicts in idbfmt's shape): all six record kinds,
flag bits, valid cross references, adversarial strings.  Indices are canonical (wrappers 1..W, then
functions, types, manifests, elements, make_seqs -- the order InterrogateDatabase::remap_indices
assigns), so that loading one file into an empty database is index-preserving."""
from hypothesis import strategies as st

from . import idbfmt

ADVERSARIAL = ["", " ", "\n", "a b", "12 ", "3 abc", '"q"', "\xe9\xff", "0", "-1 ", "x y\nz", "\t", "'", "a\\b",
               "7", "  lead", "trail  ", "\x80", "nul?", "A" * 70, "0 0 0", "1\n"]


def strings():
    return st.one_of(st.sampled_from(ADVERSARIAL),
                     st.text(alphabet=st.sampled_from(list("abcXYZ_019 :<>*&,()\n\"'\\\xe9\xfe\x7f\x01")), max_size=14))


def names():
    return st.one_of(st.sampled_from(["f", "get_x", "K1", "operator []", "ns::K", "a b"]), strings())


@st.composite
def model_dbs(draw, max_each=5, shared_types=None, lib="libm"):
    nw = draw(st.integers(0, max_each))
    nf = draw(st.integers(0, max_each))
    nt = draw(st.integers(0, max_each + 2))
    nm = draw(st.integers(0, 3))
    ne = draw(st.integers(0, max_each))
    ns = draw(st.integers(0, 2))
    base = {}
    nxt = 1
    for kind, n in (("wrappers", nw), ("functions", nf), ("types", nt), ("manifests", nm), ("elements", ne), ("make_seqs", ns)):
        base[kind] = list(range(nxt, nxt + n))
        nxt += n

    def ref(kind, allow_zero=True):
        ids = base[kind]
        if not ids:
            return 0
        i = draw(st.integers(-1 if allow_zero else 0, len(ids) - 1))
        return 0 if i < 0 else ids[i]

    def refs(kind, maxn=3):
        if not base[kind]:
            return []
        return [ref(kind, False) for _ in range(draw(st.integers(0, maxn)))]

    def comp():
        return dict(name=draw(names()), alt_names=draw(st.lists(strings(), max_size=2)))

    db = dict(file_identifier=draw(st.integers(1, 2 ** 31 - 1)), major=3, minor=3, library_name=lib,
              library_hash_name=draw(st.sampled_from(["", "abcd", "0zDC"])), module_name=draw(st.sampled_from(["m", "panda3d.core"])))
    db["functions"] = []
    for idx in base["functions"]:
        c = comp()
        c.update(index=idx, flags=draw(st.integers(0, 0x7ff)), class_=ref("types"), scoped_name=draw(strings()),
                 c_wrappers=refs("wrappers"), python_wrappers=refs("wrappers"), comment=draw(strings()), prototype=draw(strings()))
        db["functions"].append(c)
    db["wrappers"] = []
    for idx in base["wrappers"]:
        c = comp()
        params = [dict(name=draw(strings()), flags=draw(st.integers(0, 7)), type=ref("types"))
                  for _ in range(draw(st.integers(0, 3)))]
        c.update(index=idx, flags=draw(st.integers(0, 0x7f)), function=ref("functions"), return_type=ref("types"),
                 return_value_destructor=ref("functions"), unique_name=draw(strings()), comment=draw(strings()), parameters=params)
        db["wrappers"].append(c)
    db["types"] = []
    used_true = set()
    for k, idx in enumerate(base["types"]):
        c = comp()
        flags = draw(st.integers(0, 0xffffff))
        tn = draw(strings())
        if shared_types and draw(st.integers(0, 2)) == 0:
            tn = draw(st.sampled_from(shared_types))
        # true names are unique within one file (interrogate never writes two types with one true name)
        if tn in used_true:
            tn = "%s#%d" % (tn, idx)
        used_true.add(tn)
        c.update(index=idx, flags=flags, scoped_name=draw(strings()), true_name=tn, outer_class=ref("types"),
                 atomic_token=draw(st.integers(0, 9)), wrapped_type=ref("types"))
        if flags & idbfmt.F_ARRAY:
            c["array_size"] = draw(st.integers(-1, 1000))
        c.update(constructors=refs("functions"), destructor=ref("functions"), elements=refs("elements"), methods=refs("functions"),
                 make_seqs=refs("make_seqs", 2), casts=refs("functions", 2))
        c["derivations"] = [dict(flags=draw(st.integers(0, 7)), base=ref("types"), upcast=ref("functions"), downcast=ref("functions"))
                            for _ in range(draw(st.integers(0, 2)))]
        c["enum_values"] = [dict(name=draw(strings()), scoped_name=draw(strings()), comment=draw(strings()),
                                 value=draw(st.integers(-2 ** 31, 2 ** 31 - 1)))
                            for _ in range(draw(st.integers(0, 3)))]
        c["nested_types"] = refs("types", 2)
        c["comment"] = draw(strings())
        db["types"].append(c)
    db["manifests"] = []
    for idx in base["manifests"]:
        c = comp()
        c.update(index=idx, flags=draw(st.integers(0, 7)), int_value=draw(st.integers(-2 ** 31, 2 ** 31 - 1)), type=ref("types"),
                 getter=ref("functions"), definition=draw(strings()))
        db["manifests"].append(c)
    db["elements"] = []
    for idx in base["elements"]:
        c = comp()
        c.update(index=idx, flags=draw(st.integers(0, 0x3ff)), type=ref("types"), getter=ref("functions"), setter=ref("functions"),
                 has_function=ref("functions"), clear_function=ref("functions"), del_function=ref("functions"),
                 length_function=ref("functions"), insert_function=ref("functions"), getkey_function=ref("functions"),
                 scoped_name=draw(strings()), comment=draw(strings()))
        db["elements"].append(c)
    db["make_seqs"] = []
    for idx in base["make_seqs"]:
        c = comp()
        c.update(index=idx, length_getter=ref("functions"), element_getter=ref("functions"), scoped_name=draw(strings()),
                 comment=draw(strings()))
        db["make_seqs"].append(c)
    return db


def normalise_loaded(db, minor=3):
    """what the model looks like after one load: constructor/destructor flags are set on the functions a
    type lists (documented compatibility behaviour of read_new); element fields a minor format lacks are 0."""
    import copy
    d = copy.deepcopy(db)
    fn = {f["index"]: f for f in d["functions"]}
    for t in d["types"]:
        if t["destructor"] in fn:
            fn[t["destructor"]]["flags"] |= idbfmt.FF["destructor"]
        for c in t["constructors"]:
            if c in fn:
                fn[c]["flags"] |= idbfmt.FF["constructor"]
    for e in d["elements"]:
        if minor < 1:
            e["has_function"] = e["clear_function"] = 0
        if minor < 2:
            e["del_function"] = e["length_function"] = 0
        if minor < 3:
            e["insert_function"] = e["getkey_function"] = 0
    d["minor"] = 3
    return d
