"""C/C++ preprocessing-token lexer and value-normalising comparison.

tokens(text) -> list of (kind, value):
  ("id", spelling)  ("num", int) | ("num", "<spelling>") for non-integers   ("str", bytes)  ("chr", int)
  ("p", punctuator spelling, digraphs/alternative tokens mapped to primaries)
Adjacent string literals are concatenated.  Whitespace/newlines/comments are dropped.
"""
import re

PUNCT = ["%:%:", "...", "<<=", ">>=", "->*", "<=>", "##", "<:", ":>", "<%", "%>", "%:", "::", "->", "++", "--",
         "<<", ">>", "<=", ">=", "==", "!=", "&&", "||", "*=", "/=", "%=", "+=", "-=", "&=", "^=", "|=", ".*",
         "{", "}", "[", "]", "#", "(", ")", ";", ":", "?", ".", "+", "-", "*", "/", "%", "^", "&", "|", "~", "!",
         "=", "<", ">", ",", "@", "$", "`", "\\"]
DIGRAPH = {"<:": "[", ":>": "]", "<%": "{", "%>": "}", "%:": "#", "%:%:": "##"}
ALT = {"and": "&&", "bitor": "|", "or": "||", "xor": "^", "compl": "~", "bitand": "&", "and_eq": "&=",
       "or_eq": "|=", "xor_eq": "^=", "not": "!", "not_eq": "!="}
_ID = re.compile(r"[A-Za-z_][A-Za-z_0-9]*")
_PPNUM = re.compile(r"\.?[0-9](?:[eEpP][+-]|'[0-9A-Za-z_]|[0-9A-Za-z_.])*")
_SIMPLE = {"n": 10, "t": 9, "r": 13, "a": 7, "b": 8, "v": 11, "f": 12, "\\": 92, "'": 39, '"': 34, "?": 63, "0": 0}


class LexError(Exception):
    pass


def _unescape(body):
    out = bytearray()
    i = 0
    n = len(body)
    while i < n:
        c = body[i]
        if c != "\\":
            out.extend(c.encode("latin-1", "replace"))
            i += 1
            continue
        i += 1
        if i >= n:
            raise LexError("dangling backslash")
        c = body[i]
        if c in "01234567":
            j = i
            while j < n and j < i + 3 and body[j] in "01234567":
                j += 1
            out.append(int(body[i:j], 8) & 0xFF)
            i = j
        elif c == "x":
            j = i + 1
            while j < n and body[j] in "0123456789abcdefABCDEF":
                j += 1
            if j == i + 1:
                raise LexError("bad \\x")
            out.append(int(body[i + 1:j], 16) & 0xFF)
            i = j
        elif c in _SIMPLE:
            out.append(_SIMPLE[c])
            i += 1
        else:
            out.extend(c.encode("latin-1", "replace"))
            i += 1
    return bytes(out)


def parse_int(sp):
    """value of an integer pp-number, or None"""
    s = sp.replace("'", "")
    m = re.fullmatch(r"(0[xX][0-9a-fA-F]+|0[bB][01]+|0[0-7]*|[1-9][0-9]*)([uUlL]*)", s)
    if not m:
        return None
    body = m.group(1)
    if body[:2] in ("0x", "0X"):
        return int(body[2:], 16)
    if body[:2] in ("0b", "0B"):
        return int(body[2:], 2)
    if body.startswith("0") and len(body) > 1:
        return int(body, 8)
    return int(body)


def tokens(text, alt_tokens=True):
    if isinstance(text, bytes):
        text = text.decode("latin-1")
    out = []
    i, n = 0, len(text)
    while i < n:
        c = text[i]
        if c in " \t\r\n\v\f":
            i += 1
            continue
        if text.startswith("//", i):
            j = text.find("\n", i)
            i = n if j < 0 else j
            continue
        if text.startswith("/*", i):
            j = text.find("*/", i + 2)
            i = n if j < 0 else j + 2
            continue
        if c == '"' or c == "'" or (c in "LuU" and i + 1 < n and text[i + 1] in "\"'"):
            if c in "LuU":
                i += 1
                c = text[i]
            j = i + 1
            while j < n and text[j] != c:
                if text[j] == "\\":
                    j += 1
                if j < n and text[j] == "\n":
                    raise LexError("newline in literal")
                j += 1
            if j >= n:
                raise LexError("unterminated literal")
            body = _unescape(text[i + 1:j])
            if c == '"':
                if out and out[-1][0] == "str":
                    out[-1] = ("str", out[-1][1] + body)
                else:
                    out.append(("str", body))
            else:
                v = 0
                for b in body:
                    v = (v << 8) | b
                if len(body) == 1 and v >= 128:
                    v -= 256
                out.append(("chr", v))
            i = j + 1
            continue
        m = _PPNUM.match(text, i)
        if m:
            sp = m.group(0)
            v = parse_int(sp)
            out.append(("num", v if v is not None else sp))
            i = m.end()
            continue
        m = _ID.match(text, i)
        if m:
            sp = m.group(0)
            if alt_tokens and sp in ALT:
                out.append(("p", ALT[sp]))
            else:
                out.append(("id", sp))
            i = m.end()
            continue
        for p in PUNCT:
            if text.startswith(p, i):
                # "<::" is "<" "::" unless followed by : or >
                if p == "<:" and text.startswith("<::", i) and not (text.startswith("<:::", i) or text.startswith("<::>", i)):
                    p = "<"
                out.append(("p", DIGRAPH.get(p, p)))
                i += len(p)
                break
        else:
            out.append(("other", c))
            i += 1
    return out


_SPLIT = {">>": [">", ">"], "<=>": ["<=", ">"]}


def normalise(toks):
    """make the comparison insensitive to how '>>' vs '> >' were glued is NOT done: token
    boundaries matter.  Only numeric non-integers are compared by float value where possible."""
    out = []
    for k, v in toks:
        if k == "num" and isinstance(v, str):
            s = v.replace("'", "").rstrip("fFlL")
            try:
                out.append(("real", float(s)))
                continue
            except ValueError:
                pass
        out.append((k, v))
    return out


def show(toks, limit=60):
    parts = []
    for k, v in toks[:limit]:
        if k == "str":
            parts.append('"' + v.decode("latin-1").replace("\\", "\\\\").replace('"', '\\"') + '"')
        elif k == "chr":
            parts.append("chr(%d)" % v)
        else:
            parts.append(str(v))
    return " ".join(parts) + (" ..." if len(toks) > limit else "")
