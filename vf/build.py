"""Tree-hash keyed build cache of /repo (working tree, not a commit).

Variants
  std   g++, the project's default "Standard" configuration (asserts on), shared
        libinterrogatedb.so -- the tools users run
  asan  g++ -O1 -g -fsanitize=address,undefined, static libs -- CLI totality, harnesses
  fuzz  clang++ -fsanitize=fuzzer-no-link,address,undefined, static libs, only the
        libraries -- libFuzzer targets
Every variant is compiled with -DPANDA3D_INTERROGATE_VERIF (the hook guard).
"""
import fcntl
import hashlib
import os
import shutil
import subprocess
import sys
import time

REPO = os.environ.get("VERIF_REPO", "/repo")
VERIF = os.path.dirname(os.path.dirname(os.path.abspath(__file__)))
CACHE = os.path.join(VERIF, ".cache")
GUARD = "PANDA3D_INTERROGATE_VERIF"

_HASH_DIRS = ["src", "cmake"]
_HASH_FILES = ["CMakeLists.txt"]


class BuildError(Exception):
    pass


def tree_hash():
    h = hashlib.sha256()
    paths = []
    for d in _HASH_DIRS:
        for root, dirs, files in os.walk(os.path.join(REPO, d)):
            dirs.sort()
            for f in sorted(files):
                paths.append(os.path.join(root, f))
    for f in _HASH_FILES:
        paths.append(os.path.join(REPO, f))
    for p in paths:
        h.update(os.path.relpath(p, REPO).encode())
        h.update(b"\0")
        try:
            with open(p, "rb") as fh:
                h.update(hashlib.sha256(fh.read()).digest())
        except OSError:
            h.update(b"?")
    return h.hexdigest()[:16]


_VARIANTS = {
    "std": dict(
        cxx="g++", cc="gcc",
        flags="-D%s" % GUARD,
        shared="ON", targets=["interrogate", "interrogate_module", "parse_file", "interrogatedb"],
    ),
    "asan": dict(
        cxx="g++", cc="gcc",
        flags="-O1 -g -fno-omit-frame-pointer -fsanitize=address,undefined "
              "-fno-sanitize-recover=undefined -D%s" % GUARD,
        shared="OFF", targets=["interrogate", "interrogate_module", "parse_file", "interrogatedb"],
        std_flags="-O1",
    ),
    "fuzz": dict(
        cxx="clang++", cc="clang",
        flags="-O1 -g -fno-omit-frame-pointer -fsanitize=fuzzer-no-link,address,undefined "
              "-fno-sanitize-recover=undefined -D_GLIBCXX_ASSERTIONS -D%s" % GUARD,
        shared="OFF", targets=["cppParser", "interrogatedb", "dtoolutil", "dtoolbase"],
        std_flags="-O1",
    ),
}


def build_dir(variant, th=None):
    th = th or tree_hash()
    return os.path.join(CACHE, "build", th, variant)


def _prune(keep_hash):
    base = os.path.join(CACHE, "build")
    try:
        ents = [e for e in os.listdir(base) if e != keep_hash and not e.startswith(".")]
    except OSError:
        return
    # keep at most 2 other tree states (mutant testing flips between them)
    ents.sort(key=lambda e: os.path.getmtime(os.path.join(base, e)), reverse=True)
    for e in ents[2:]:
        shutil.rmtree(os.path.join(base, e), ignore_errors=True)


def ensure(variant="std", quiet=False):
    """Return the build directory for the current working tree, building if needed."""
    v = _VARIANTS[variant]
    th = tree_hash()
    bd = build_dir(variant, th)
    stamp = os.path.join(bd, ".ok")
    if os.path.exists(stamp):
        try:
            os.utime(os.path.dirname(bd))
        except OSError:
            pass
        return bd
    os.makedirs(bd, exist_ok=True)
    lock = open(os.path.join(os.path.dirname(bd), ".lock-" + variant), "w")
    fcntl.flock(lock, fcntl.LOCK_EX)
    try:
        if os.path.exists(stamp):
            return bd
        t0 = time.time()
        if not quiet:
            print("[build] %s variant for tree %s ..." % (variant, th), file=sys.stderr, flush=True)
        log = open(os.path.join(bd, "build.log"), "w")
        cfg = ["cmake", "-G", "Ninja", "-S", REPO, "-B", bd,
               "-DCMAKE_CXX_COMPILER=" + v["cxx"], "-DCMAKE_C_COMPILER=" + v["cc"],
               "-DCMAKE_CXX_FLAGS=" + v["flags"], "-DCMAKE_C_FLAGS=" + v["flags"],
               "-DBUILD_SHARED_LIBS=" + v["shared"], "-DCMAKE_UNITY_BUILD=OFF",
               "-DBUILD_TESTING=OFF", "-DBUILD_PYTHON_BINDINGS=OFF", "-DHAVE_PYTHON=OFF",
               "-DCMAKE_BUILD_TYPE=Standard"]
        if v.get("std_flags"):
            cfg.append("-DCMAKE_CXX_FLAGS_STANDARD=" + v["std_flags"])
        env = dict(os.environ)
        env.pop("LD_PRELOAD", None)
        r = subprocess.run(cfg, stdout=log, stderr=subprocess.STDOUT, env=env)
        if r.returncode != 0:
            raise BuildError("cmake configure failed for %s, see %s/build.log" % (variant, bd))
        r = subprocess.run(["cmake", "--build", bd, "-j", str(os.cpu_count() or 8), "--target"] + v["targets"],
                           stdout=log, stderr=subprocess.STDOUT, env=env)
        log.close()
        if r.returncode != 0:
            tail = open(os.path.join(bd, "build.log")).read()[-3000:]
            raise BuildError("build failed for %s:\n%s" % (variant, tail))
        open(stamp, "w").write("%f\n" % (time.time() - t0))
        if not quiet:
            print("[build] %s done in %.0fs" % (variant, time.time() - t0), file=sys.stderr, flush=True)
        _prune(th)
        return bd
    finally:
        fcntl.flock(lock, fcntl.LOCK_UN)
        lock.close()


def tool(name, variant="std"):
    return os.path.join(ensure(variant), "bin", name)


def lib(name, variant="std"):
    return os.path.join(ensure(variant), "lib", name)


def include_dirs(variant="std"):
    bd = ensure(variant)
    return [os.path.join(REPO, "src", d) for d in ("cppparser", "dtoolbase", "dtoolutil", "interrogatedb", "interrogate")] + \
           [os.path.join(bd, "cmake", "src", "cppparser"), os.path.join(bd, "cmake")]


if __name__ == "__main__":
    for var in sys.argv[1:] or ["std"]:
        print(ensure(var))
